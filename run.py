#!/venv/bin/python
"""CLI of the verification machinery.

    run.py <ID> [--tier quick|thorough] [--replay FILE] [--sub NAME ...]

exit 0: property held on everything explored (KNOWN-FINDING lines allowed)
exit 1: a line `VIOLATION property=<ID> replay=<path>` was printed
exit 2: the machinery itself failed (never a violation)
"""
import os
import sys

_ENV = dict(PYTHONHASHSEED="0", OMP_NUM_THREADS="1", MKL_NUM_THREADS="1",
            OPENBLAS_NUM_THREADS="1", NUMEXPR_NUM_THREADS="1",
            PYTHONDONTWRITEBYTECODE="1")
if any(os.environ.get(k) != v for k, v in _ENV.items()):
    os.environ.update(_ENV)
    os.execv(sys.executable, [sys.executable] + sys.argv)

HERE = os.path.dirname(os.path.abspath(__file__))
sys.path.insert(0, HERE)
REPO = os.environ.get("VERIF_REPO", "/repo")
sys.path.insert(0, REPO)
os.environ["PYTHONPATH"] = os.pathsep.join([REPO, HERE, os.environ.get("PYTHONPATH", "")])
os.environ.setdefault("OQUPY_VERIF", "1")


def main(argv):
    import argparse
    ap = argparse.ArgumentParser()
    ap.add_argument("id")
    ap.add_argument("--tier", default=os.environ.get("VERIF_TIER", "quick"),
                    choices=["quick", "thorough"])
    ap.add_argument("--replay")
    ap.add_argument("--sub", nargs="*")
    a = ap.parse_args(argv)
    from vlib import runner
    try:
        seed = int(os.environ.get("VERIF_SEED", "1"))
    except ValueError:
        seed = 1
    try:
        if a.replay:
            return runner.replay(a.id.upper(), a.replay)
        return runner.run_check(a.id.upper(), a.tier, seed, a.sub)
    except runner.HarnessError as exc:
        print("HARNESS-ERROR", exc)
        return 2


if __name__ == "__main__":
    try:
        rc = main(sys.argv[1:])
    except SystemExit:
        raise
    except BaseException as exc:  # machinery failure
        import traceback
        traceback.print_exc()
        print("HARNESS-ERROR", type(exc).__name__, exc)
        rc = 2
    sys.exit(rc)
