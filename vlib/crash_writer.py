"""Child process for C17: writes a process-tensor file and dies at a chosen
point.  usage: crash_writer.py <repo> <file> <writer> <mode> <k> <N> [<rename_at>]
 rename_at: after the rename_at-th completed tensor write the name and the description of every open file-backed
            process tensor are assigned (a metadata update on a file that is still being written); 0 = never
 writer: export | pttempo      mode: count | none | kill | _exit | exc | flushkill
 k: die after the k-th completed tensor write (k>=1), or k=-1: at entry of close()"""
import os
import signal
import sys
import warnings

repo, fn, writer, mode, k, N = sys.argv[1], sys.argv[2], sys.argv[3], sys.argv[4], int(sys.argv[5]), int(sys.argv[6])
RENAME_AT = int(sys.argv[7]) if len(sys.argv) > 7 else 0
OTHER_VERSION = sys.argv[8] if len(sys.argv) > 8 and sys.argv[8] != "-" else None     # the writer is "another release"
BIG = N >= 100          # N = 100 + steps: large tensors (bond dimension 64) so that HDF5 itself flushes while writing
N = N % 100
BOND = 64 if BIG else 3
sys.path.insert(0, repo)
warnings.simplefilter("ignore")
import numpy as np  # noqa: E402
import oqupy  # noqa: E402
import oqupy.process_tensor as P  # noqa: E402
if OTHER_VERSION:
    P.__version__ = OTHER_VERSION

cnt = [0]


def die():
    if mode == "kill":
        os.kill(os.getpid(), signal.SIGKILL)
    if mode == "_exit":
        os._exit(7)
    if mode == "exc":
        raise RuntimeError("injected crash")
    if mode == "flushkill":
        import gc
        for o in gc.get_objects():
            if isinstance(o, P.FileProcessTensor) and o._f:
                o._f.flush()
        os.kill(os.getpid(), signal.SIGKILL)


orig_set = P._set_data_and_shape


def wrapped(step, data, shape, tensor):
    orig_set(step, data, shape, tensor)
    cnt[0] += 1
    if RENAME_AT and cnt[0] == RENAME_AT:
        import gc
        for o in gc.get_objects():
            if isinstance(o, P.FileProcessTensor) and o._f:
                o.name = "renamed while writing"
                o.description = "described while writing"
    if mode not in ("count", "none") and cnt[0] == k:
        die()


P._set_data_and_shape = wrapped
orig_close = P.FileProcessTensor.close


def close(self):
    if mode not in ("count", "none") and k == -1 and self._write:
        die()
    return orig_close(self)


P.FileProcessTensor.close = close

if writer == "export":
    pt = P.SimpleProcessTensor(2, dt=0.1)
    for s in range(N):
        a = 1 if s == 0 else BOND
        b = 1 if s == N - 1 else BOND
        i, j, x, y = np.meshgrid(np.arange(a), np.arange(b), np.arange(4), np.arange(4), indexing="ij")
        pt.set_mpo_tensor(s, np.cos(1.0 + i + 2 * j + 3 * x + 5 * y + s) + 0j)
    pt.compute_caps()
    pt.export(fn)
else:
    bath = oqupy.Bath(np.diag([0.5, -0.5]), oqupy.PowerLawSD(0.2, 1.0, 3.0, temperature=0.4))
    par = oqupy.TempoParameters(dt=0.1, epsrel=1e-7, dkmax=2)
    pt = oqupy.pt_tempo_compute(bath, 0.0, (N + 0.5) * 0.1, par, process_tensor_file=fn, progress_type="silent")
    pt.close()
print("ops", cnt[0])
