"""Generated mean-field problems (JSON-able): systems with field dependent
Hamiltonians and a field equation of motion from a small grammar."""
import math

import numpy as np
from hypothesis import strategies as st

from vlib import gens, tempogen


@st.composite
def mf_spec(draw, tier="quick", ns_max=3, dims=(2, 3), field_independent=None, time_dependent=None):
    ns = draw(st.integers(1, ns_max))
    if ns == 1:
        ds = [draw(st.sampled_from(list(dims)))]
    else:
        ds = [draw(st.sampled_from(list(dims))) for _ in range(ns)]
        if sum(1 for d in ds if d == 3) > 1:
            ds = [2 if i > 0 else d for i, d in enumerate(ds)]
    fi = draw(st.integers(0, 5)) == 0 if field_independent is None else field_independent
    td = draw(st.booleans()) if time_dependent is None else time_dependent
    systems = []
    for d in ds:
        lind = []
        if draw(st.integers(0, 2)) == 0:
            lind.append({"g0": draw(st.sampled_from([0.1, 0.3])), "g1": draw(st.sampled_from([0.0, 0.2])),
                         "A": draw(gens.cmatrix(d, d, 1, 2))})
        systems.append({
            "d": d, "H0": draw(gens.herm_spec(d, 2, 4)), "H1": draw(gens.herm_spec(d, 1, 4)),
            "nu": draw(st.sampled_from([0.0, 1.0, 3.0])),
            "B": draw(gens.cmatrix(d, d, 1, 2)),
            "g": 0.0 if fi else draw(st.sampled_from([0.1, 0.5, 1.0])),
            "lind": lind, "rho0": draw(gens.dm_spec(d)),
            "Aobs": draw(gens.cmatrix(d, d, 1, 2)),
        })
    eom = {
        "c0": draw(gens.cnum(1, 4)),
        "c1": draw(gens.cnum(1, 4)) if td else [0.0, 0.0],
        "kappa": draw(st.sampled_from([0.0, 0.1, 0.5])), "omega": draw(st.sampled_from([0.0, 0.7, -1.5])),
        "c3": draw(st.sampled_from([0.0, 0.25, -0.25])) if td else 0.0,
        "cs": [draw(st.sampled_from([0.0, 0.5, 1.0])) for _ in ds],
        "c4": draw(st.sampled_from([0.0, 0.5])) if td else 0.0, "nu": draw(st.sampled_from([1.0, 2.5])),
        "linear_only": False,
    }
    if draw(st.integers(0, 5)) == 0:
        # f = c0 + c1 t exactly (closed form a(t) known)
        eom.update(kappa=0.0, omega=0.0, c3=0.0, cs=[0.0] * ns, c4=0.0, linear_only=True,
                   c1=draw(gens.cnum(1, 4)))
    return {"systems": systems, "eom": eom,
            "a0": draw(gens.cnum(1, 4))}


def field_eom(spec, shift=0.0, wrap=None):
    e = spec["eom"]
    c0 = complex(*e["c0"])
    c1 = complex(*e["c1"])
    As = [gens.to_c(s["Aobs"]) for s in spec["systems"]]

    def f(t, states, a):
        t = t - shift
        v = c0 + c1 * t + (-e["kappa"] + 1j * e["omega"]) * a + e["c3"] * t * a + e["c4"] * math.sin(e["nu"] * t)
        for c, A, s in zip(e["cs"], As, states):
            if c:
                v = v + c * np.trace(s @ A)
        ret = e.get("ret", "complex")
        if ret == "numpy-scalar":
            return np.complex128(v)
        if ret == "array-0d":
            return np.array(complex(v))
        if ret == "array-1":
            return np.array([complex(v)])          # accepted by MeanFieldSystem (its input check calls complex(value))
        return complex(v)
    return wrap(f, "field_eom") if wrap else f


def eom_time_dependent(spec):
    e = spec["eom"]
    return complex(*e["c1"]) != 0 or e["c3"] != 0 or e["c4"] != 0


def _Hsys(s, t):
    return gens.herm(s["H0"]) + math.cos(s["nu"] * t) * gens.herm(s["H1"])


def build_mf_system(spec, shift=0.0, wrap=None, rots=None):
    import oqupy
    w = wrap or (lambda f, kind: f)
    systems = []
    for i, s in enumerate(spec["systems"]):
        V = None if rots is None else rots[i]
        R = (lambda X: X) if V is None else (lambda X, V=V: V @ X @ V.conj().T)
        B = gens.to_c(s["B"])

        def H(t, a, s=s, B=B, R=R):
            t = t - shift
            return R(_Hsys(s, t) + s["g"] * (a * B + np.conj(a) * B.conj().T))
        gs = [w((lambda t, l=l: l["g0"] + l["g1"] * math.sin(t - shift) ** 2), "gamma") for l in s["lind"]]
        Ls = [w((lambda t, l=l, R=R: R(gens.to_c(l["A"]))), "lindblad") for l in s["lind"]]
        systems.append(oqupy.TimeDependentSystemWithField(w(H, "hamiltonian"), gammas=gs, lindblad_operators=Ls))
    if rots is None:
        eom = field_eom(spec, shift, wrap)
    else:
        base = field_eom(spec, shift, None)

        def eom(t, states, a):
            return base(t, [V.conj().T @ st @ V for V, st in zip(rots, states)], a)
        if wrap:
            eom = wrap(eom, "field_eom")
    return oqupy.MeanFieldSystem(systems, eom)


def build_plain_system(s, shift=0.0):
    """the TimeDependentSystem equivalent of a field-independent member"""
    import oqupy
    return oqupy.TimeDependentSystem(
        lambda t: _Hsys(s, t - shift),
        gammas=[(lambda t, l=l: l["g0"] + l["g1"] * math.sin(t - shift) ** 2) for l in s["lind"]],
        lindblad_operators=[(lambda t, l=l: gens.to_c(l["A"])) for l in s["lind"]])


def initial_states(spec):
    return [gens.build_dm(s["rho0"]) for s in spec["systems"]]


def heun_residual(spec, times, states_list, fields, dt, shift=0.0):
    """max |a_{n+1} - Heun(a_n)| recomputed from returned states / times"""
    f = field_eom(spec, shift)
    worst = 0.0
    for n in range(len(times) - 1):
        st0 = [s[n] for s in states_list]
        st1 = [s[n + 1] for s in states_list]
        k1 = complex(np.asarray(f(times[n], st0, fields[n])).reshape(-1)[0])      # the equation may return a 1-element array
        k2 = complex(np.asarray(f(times[n + 1], st1, fields[n] + dt * k1)).reshape(-1)[0])
        worst = max(worst, float(abs(fields[n + 1] - (fields[n] + dt * (k1 + k2) / 2))))
    return worst
