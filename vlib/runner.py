"""Common runner: sharded generated-input search with collect-then-shrink,
replay files, known-findings matching and evidence writing.

A check module (checks/cXX.py) exposes

    ID, LEVEL, RULE, ASSUMPTIONS (list of str)
    subs(tier) -> list[Sub]

A Sub is either Hypothesis driven (strategy(tier) returns a strategy that
yields a JSON-serialisable case) or an enumeration (cases(tier) returns a list
of JSON-serialisable cases; exhaustive over its stated finite domain).
`run(case)` returns an Outcome.  All randomness lives in the strategy.
"""
import hashlib
import importlib
import json
import multiprocessing as mp
import os
import sys
import time
import traceback

VERIF_DIR = os.path.dirname(os.path.dirname(os.path.abspath(__file__)))
REPO_DIR = os.environ.get("VERIF_REPO", "/repo")
NPROC = int(os.environ.get("VERIF_NPROC", "16"))
# evidence/ and replays/ are written below OUT_DIR (the sensitivity audit points it elsewhere)
OUT_DIR = os.environ.get("VERIF_OUT_DIR", VERIF_DIR)


# thorough tier: multipliers on the per-sub-check thorough budgets, set from the measured run times of the first
# complete thorough run so that every thorough check takes roughly 10-25 minutes on 16 cores
THOROUGH_MULT = {"C01": 2, "C02": 2, "C03": 6, "C04": 8, "C05": 6, "C06": 3, "C07": 10, "C08": 8, "C09": 6, "C10": 8,
                 "C11": 8, "C12": 1, "C13": 8, "C14": 8, "C15": 8, "C16": 10, "C17": 10, "C18": 3, "C19": 1, "C20": 3}


class HarnessError(Exception):
    """An error of the checking machinery itself (never a violation)."""


class Outcome:
    __slots__ = ("fails", "nontrivial", "labels", "inconclusive", "metrics", "units", "nontrivial_units")

    def __init__(self):
        self.fails = []          # list of (signature_class, message)
        self.nontrivial = False
        self.labels = []
        self.inconclusive = False
        self.metrics = {}        # name -> float (max is kept across cases)
        self.units = 1           # elementary evaluations bundled in this case (enumeration chunks)
        self.nontrivial_units = None   # how many of them are non-trivial (default: 1 if nontrivial)

    def fail(self, sigclass, msg=""):
        self.fails.append((str(sigclass), str(msg)[:500]))

    def label(self, *names):
        self.labels.extend(str(n) for n in names)

    def metric(self, name, value):
        v = float(value)
        if name not in self.metrics or v > self.metrics[name]:
            self.metrics[name] = v

    def check_close(self, sigclass, got, ref, tol, what=""):
        """record a failure unless max|got-ref| <= tol (NaN counts as failure)"""
        import numpy as np
        got = np.asarray(got)
        ref = np.asarray(ref)
        if got.shape != ref.shape:
            self.fail(sigclass + ":shape", f"{what} shape {got.shape} != {ref.shape}")
            return False
        if got.size == 0:
            return True
        dev = np.abs(got - ref)
        m = float(np.nanmax(dev)) if not np.all(np.isnan(dev)) else float("nan")
        bad = (not np.all(np.isfinite(dev))) or m > tol
        self.metric(sigclass + "/tol", (m / tol) if tol > 0 and m == m else 0.0)
        if bad:
            self.fail(sigclass, f"{what} dev={m:.3e} tol={tol:.3e}")
            return False
        return True


class Sub:
    def __init__(self, name, run, strategy=None, cases=None, budget=None,
                 shrink_calls=None, exhaustive=False, nproc=None):
        self.name = name
        self.run = run
        self.strategy = strategy
        self.cases = cases
        self.budget = budget or {"quick": 100, "thorough": 1000}
        self.shrink_calls = shrink_calls or {"quick": 120, "thorough": 500}
        self.exhaustive = exhaustive and cases is not None
        self.nproc = nproc


def canon(case):
    return json.dumps(case, sort_keys=True, default=_json_default)


def _json_default(o):
    try:
        import numpy as np
        if isinstance(o, (np.integer,)):
            return int(o)
        if isinstance(o, (np.floating,)):
            return float(o)
        if isinstance(o, (np.bool_,)):
            return bool(o)
        if isinstance(o, np.ndarray):
            return o.tolist()
    except Exception:
        pass
    if isinstance(o, complex):
        return [o.real, o.imag]
    if isinstance(o, (set, frozenset, tuple)):
        return list(o)
    raise TypeError(f"not serialisable: {type(o)}")


def chash(case):
    return hashlib.sha1(canon(case).encode()).hexdigest()[:16]


def derive_seed(*parts):
    h = hashlib.sha256("|".join(str(p) for p in parts).encode()).digest()
    return int.from_bytes(h[:8], "big")


def _classify_exception(exc):
    """library exception -> failure signature; harness exception -> None"""
    tb = traceback.extract_tb(exc.__traceback__)
    inner = None
    for fr in tb:
        fn = fr.filename.replace("\\", "/")
        if "/oqupy/" in fn and "/verif/" not in fn:
            inner = fr
    if inner is None:
        return None
    return f"exc:{type(exc).__name__}@{os.path.basename(inner.filename)}:{inner.name}"


def safe_run(sub, case):
    """run one case; library exceptions become failures of that case,
    harness exceptions propagate as HarnessError."""
    try:
        out = sub.run(case)
    except HarnessError:
        raise
    except Exception as exc:  # classified, never swallowed
        sig = _classify_exception(exc)
        if sig is None:
            raise HarnessError(
                f"harness error in {sub.name}: {type(exc).__name__}: {exc}\n"
                + traceback.format_exc()) from exc
        out = Outcome()
        out.nontrivial = True
        if type(exc).__name__ == "LinAlgError" and "SVD did not converge" in str(exc):
            # LAPACK's divide-and-conquer SVD (gesdd, reached through tensornetwork's numpy back-end) occasionally
            # reports non-convergence on well-conditioned, finite input; the same case passes when repeated (observed 1 in
            # 5 repetitions of one input, DESIGN 10.12).  An availability flake of the numerical library, not a statement
            # about returned results: counted as inconclusive and labelled, never as a pass of the oracle.
            out.inconclusive = True
            out.label("lapack-svd-did-not-converge")
            return out
        out.fail(sig, f"{type(exc).__name__}: {exc}")
    if out is None:
        raise HarnessError(f"{sub.name}.run returned None")
    return out


def _load_check(check_id):
    if VERIF_DIR not in sys.path:
        sys.path.insert(0, VERIF_DIR)
    if REPO_DIR not in sys.path[:1]:
        sys.path.insert(0, REPO_DIR)
    return importlib.import_module(f"checks.{check_id.lower()}")


def _find_sub(mod, tier, name):
    for s in mod.subs(tier):
        if s.name == name:
            return s
    raise HarnessError(f"no sub-check {name}")


class _Acc:
    """per-shard accumulator"""

    def __init__(self):
        self.evaluations = 0
        self.nontrivial_hashes = {}
        self.labels = {}
        self.metrics = {}
        self.inconclusive = 0
        self.skipped = 0
        self.failures = {}   # sig -> dict(case, msg, index, size, count)
        self.samples = []

    def add(self, case, out, index):
        self.evaluations += int(out.units)
        h = chash(case)
        if out.nontrivial:
            if h not in self.nontrivial_hashes and len(self.samples) < 2:
                self.samples.append(case)
            self.nontrivial_hashes[h] = int(out.nontrivial_units) if out.nontrivial_units is not None else 1
        for lab in set(out.labels):
            self.labels[lab] = self.labels.get(lab, 0) + 1
        for k, v in out.metrics.items():
            if k not in self.metrics or v > self.metrics[k]:
                self.metrics[k] = v
        if out.inconclusive:
            self.inconclusive += 1
        for sigc, msg in out.fails:
            size = len(canon(case))
            cur = self.failures.get(sigc)
            if cur is None:
                self.failures[sigc] = dict(case=case, msg=msg, index=index,
                                           size=size, count=1)
            else:
                cur["count"] += 1
                if size < cur["size"]:
                    cur.update(case=case, msg=msg, index=index, size=size)

    def dump(self):
        return dict(evaluations=self.evaluations,
                    nontrivial_hashes=self.nontrivial_hashes,
                    labels=self.labels, metrics=self.metrics,
                    inconclusive=self.inconclusive, skipped=self.skipped,
                    failures=self.failures, samples=self.samples)


def _hyp_settings(n, shrink):
    from hypothesis import settings, HealthCheck, Phase
    phases = [Phase.generate, Phase.shrink] if shrink else [Phase.generate]
    return settings(max_examples=max(1, n), database=None, deadline=None,
                    derandomize=False, report_multiple_bugs=False,
                    suppress_health_check=list(HealthCheck), phases=phases,
                    print_blob=False)


def _quiet_env():
    import warnings
    try:
        import faulthandler, signal
        faulthandler.register(signal.SIGUSR1, all_threads=True)
    except Exception:
        pass
    warnings.simplefilter("ignore")
    if os.environ.get("VERIF_WORKER_STDOUT") != "1":
        # the library prints progress / debug output; keep the check's own stdout clean
        sys.stdout = open(os.devnull, "w")
    try:
        import numpy as np
        np.seterr(all="ignore")
    except Exception:
        pass


def _shard_worker(args):
    (check_id, sub_name, tier, shard, nshards, seed, n_cases, deadline_s) = args
    _quiet_env()
    try:
        mod = _load_check(check_id)
        sub = _find_sub(mod, tier, sub_name)
        acc = _Acc()
        t_begin = time.time()
        t_end = time.time() + deadline_s
        if sub.cases is not None:
            cases = sub.cases(tier)
            for i, case in enumerate(cases):
                if i % nshards != shard:
                    continue
                if time.time() > t_end:
                    acc.skipped += 1
                    continue
                tc = time.time()
                o = safe_run(sub, case)
                o.metric("case_seconds", time.time() - tc)
                acc.add(case, o, i)
        else:
            import hypothesis
            from hypothesis import given
            counter = [0]

            @hypothesis.seed(derive_seed(seed, check_id, sub_name, shard))
            @_hyp_settings(n_cases, shrink=False)
            @given(sub.strategy(tier))
            def body(case):
                idx = counter[0]
                counter[0] += 1
                if time.time() > t_end:
                    acc.skipped += 1
                    return
                tc = time.time()
                o = safe_run(sub, case)
                o.metric("case_seconds", time.time() - tc)
                acc.add(case, o, idx)

            body()
        d = acc.dump()
        d["shard_seconds"] = time.time() - t_begin
        return ("ok", shard, d)
    except HarnessError as exc:
        return ("harness", shard, str(exc))
    except Exception as exc:
        return ("harness", shard, f"{type(exc).__name__}: {exc}\n" + traceback.format_exc())


def _shrink_worker(args):
    """re-run the shard that found `sigc`, fail only at (and after) the
    recorded example, let Hypothesis shrink under a bounded number of oracle
    calls; return the smallest failing case seen."""
    (check_id, sub_name, tier, shard, seed, n_cases, sigc, index, case0, max_calls) = args
    _quiet_env()
    try:
        mod = _load_check(check_id)
        sub = _find_sub(mod, tier, sub_name)
        if sub.cases is not None:
            return ("ok", (sub_name, sigc), case0, 0)
        import hypothesis
        from hypothesis import given
        state = dict(i=0, calls=0, best=case0, hit=False)
        t_stop = time.time() + (60.0 if tier == "quick" else 300.0)

        class _Found(Exception):
            pass

        class _StopShrink(KeyboardInterrupt):
            """budget exhausted: abort the Hypothesis run (propagates through it)"""

        @hypothesis.seed(derive_seed(seed, check_id, sub_name, shard))
        @_hyp_settings(n_cases, shrink=True)
        @given(sub.strategy(tier))
        def body(case):
            i = state["i"]
            state["i"] += 1
            if not state["hit"] and i < index:
                return
            if state["calls"] >= max_calls or time.time() > t_stop:
                raise _StopShrink()
            state["calls"] += 1
            out = safe_run(sub, case)
            if any(s == sigc for s, _ in out.fails):
                state["hit"] = True
                state["best"] = case
                raise _Found()

        try:
            body()
        except _StopShrink:
            pass
        except _Found:
            pass
        except HarnessError:
            pass
        except Exception:
            pass
        return ("ok", (sub_name, sigc), state["best"], state["calls"])
    except Exception as exc:
        return ("ok", (sub_name, sigc), case0, -1)


def load_known():
    path = os.path.join(VERIF_DIR, "known_findings.txt")
    known = []
    if os.path.exists(path):
        for line in open(path):
            line = line.strip()
            if not line.startswith("known:"):
                continue
            # known: property=C04 sig=<fnmatch pattern> <description>
            parts = line[len("known:"):].split(None, 2)
            kv = dict(p.split("=", 1) for p in parts[:2] if "=" in p)
            if "property" in kv and "sig" in kv:
                known.append((kv["property"], kv["sig"],
                              parts[2] if len(parts) > 2 else ""))
    return known


def match_known(known, prop, signature):
    import fnmatch
    for p, pat, desc in known:
        if p == prop and fnmatch.fnmatchcase(signature, pat):
            return desc or pat
    return None


def write_evidence(check_id, mod, tier, seed, stats, wall, violations, extra=None):
    os.makedirs(os.path.join(OUT_DIR, "evidence"), exist_ok=True)
    cov = dict(
        evaluations=int(stats["evaluations"]),
        distinct_nontrivial=int(stats["distinct_nontrivial"]),
        rule=mod.RULE,
        samples=stats["samples"][:6],
        exhaustive=bool(stats.get("exhaustive", False)),
        sub_checks=stats["per_sub"],
        labels=stats["labels"],
        worst_ratio_to_tolerance=stats["metrics"],
        inconclusive=int(stats["inconclusive"]),
        skipped_by_wall_clock_guard=int(stats["skipped"]),
        known_findings_reported=stats.get("known", []),
        violation_signatures=stats.get("violation_sigs", []),
        regression_inputs_replayed=int(stats.get("regression_inputs_replayed", 0)),
    )
    if extra:
        cov.update(extra)
    ev = dict(property_id=check_id, tier=tier, seed=int(seed), level=mod.LEVEL,
              coverage=cov, assumptions=list(getattr(mod, "ASSUMPTIONS", [])),
              wall_s=round(float(wall), 2), violations=int(violations))
    path = os.path.join(OUT_DIR, "evidence", f"{check_id}.json")
    tmp = path + ".tmp"
    with open(tmp, "w") as f:
        json.dump(ev, f, indent=1, default=_json_default)
    os.replace(tmp, path)
    return path


def run_check(check_id, tier, seed, only_sub=None):
    t0 = time.time()
    mod = _load_check(check_id)
    subs = mod.subs(tier)
    if only_sub:
        subs = [s for s in subs if s.name in only_sub]
    known = load_known()
    ctx = mp.get_context("spawn")
    stats = dict(evaluations=0, distinct_nontrivial=0, samples=[], per_sub={},
                 labels={}, metrics={}, inconclusive=0, skipped=0, known=[],
                 violation_sigs=[])
    tier_deadline = float(os.environ.get(
        "VERIF_DEADLINE_S", "900" if tier == "quick" else "5400"))
    all_fail = []  # (sub, sigc, record, shard)
    exhaustive_all = True
    harness_errors = []
    tasks = []
    for sub in subs:
        n = int(sub.budget.get(tier, sub.budget.get("quick", 100)))
        if tier == "thorough" and sub.cases is None:
            n = int(n * THOROUGH_MULT.get(check_id, 1))
        n = max(1, int(n * float(os.environ.get("VERIF_BUDGET_SCALE", "1"))))
        nshards = min(sub.nproc or NPROC, NPROC)
        if sub.cases is None:
            nshards = max(1, min(nshards, n // 4 or 1))
        per = -(-n // nshards)
        for sh in range(nshards):
            tasks.append((check_id, sub.name, tier, sh, nshards, seed, per, tier_deadline))
    with ctx.Pool(min(NPROC, max(1, len(tasks)))) as pool:
        results = pool.map(_shard_worker, tasks, chunksize=1)
    print(f"[{check_id}] generation pass done after {time.time()-t0:.1f}s ({len(tasks)} shards)", file=sys.stderr)
    by_sub = {}
    for task, res in zip(tasks, results):
        by_sub.setdefault(task[1], []).append((task, res))
    for sub in subs:
        nt = {}
        ev = 0
        fails_here = {}
        for task, (status, shard, payload) in by_sub.get(sub.name, []):
            if status != "ok":
                harness_errors.append(f"{sub.name} shard {shard}: {payload}")
                continue
            ev += payload["evaluations"]
            key = f"{sub.name}:shard_seconds"
            stats["metrics"][key] = max(stats["metrics"].get(key, 0), round(payload.get("shard_seconds", 0), 1))
            nt.update(payload["nontrivial_hashes"])
            for k, v in payload["labels"].items():
                key = f"{sub.name}:{k}"
                stats["labels"][key] = stats["labels"].get(key, 0) + v
            for k, v in payload["metrics"].items():
                key = f"{sub.name}:{k}"
                if key not in stats["metrics"] or v > stats["metrics"][key]:
                    stats["metrics"][key] = round(v, 6)
            stats["inconclusive"] += payload["inconclusive"]
            stats["skipped"] += payload["skipped"]
            if len([s for s in stats["samples"] if s.get("sub") == sub.name]) < 2:
                for c in payload["samples"][:1]:
                    stats["samples"].append(dict(sub=sub.name, case=c))
            for sigc, rec in payload["failures"].items():
                cur = fails_here.get(sigc)
                if cur is None or rec["size"] < cur[0]["size"]:
                    cnt = rec["count"] + (cur[0]["count"] if cur else 0)
                    rec = dict(rec, count=cnt)
                    fails_here[sigc] = (rec, task)
                else:
                    cur[0]["count"] += rec["count"]
        stats["evaluations"] += ev
        stats["distinct_nontrivial"] += sum(nt.values())
        stats["per_sub"][sub.name] = dict(
            evaluations=ev, distinct_nontrivial=sum(nt.values()),
            kind="enumeration" if sub.cases is not None else "hypothesis",
            exhaustive=bool(sub.exhaustive))
        if not sub.exhaustive:
            exhaustive_all = False
        for sigc, (rec, task) in fails_here.items():
            all_fail.append((sub, sigc, rec, task))
    if stats["skipped"]:
        exhaustive_all = False
    stats["exhaustive"] = exhaustive_all and bool(subs)

    # replay tier: committed regression inputs (former failures), run through the same oracle
    regress = _run_regress(check_id, mod, tier, known)
    stats["regression_inputs_replayed"] = regress["n"]
    if regress["harness"]:
        harness_errors.extend(regress["harness"])
    if harness_errors:
        for h in harness_errors[:5]:
            print("HARNESS-ERROR", h, file=sys.stderr)
        print(f"HARNESS-ERROR property={check_id}: {len(harness_errors)} shard(s) failed inside the machinery")
        return 2

    # shrink each distinct new signature (known ones are reported unshrunk)
    violations = 0
    shrink_tasks = []
    pending = []
    for sub, sigc, rec, task in all_fail:
        signature = f"{sub.name}/{sigc}"
        desc = match_known(known, check_id, signature)
        if desc is not None:
            print(f"KNOWN-FINDING: property={check_id} {signature} {desc} (cases: {rec['count']})")
            stats["known"].append(dict(signature=signature, cases=rec["count"]))
            continue
        pending.append((sub, sigc, rec, task))
        shrink_tasks.append((check_id, sub.name, tier, task[3], seed, task[6], sigc,
                             rec["index"], rec["case"], int(sub.shrink_calls.get(tier, 100))))
    shrunk = {}
    if shrink_tasks and os.environ.get("VERIF_NO_SHRINK") != "1":
        with ctx.Pool(min(NPROC, len(shrink_tasks))) as pool:
            for status, key, best, calls in pool.map(_shrink_worker, shrink_tasks, chunksize=1):
                shrunk[key] = (best, calls)
    if shrink_tasks:
        print(f"[{check_id}] shrinking done after {time.time()-t0:.1f}s", file=sys.stderr)
    for sub, sigc, rec, task in pending:
        signature = f"{sub.name}/{sigc}"
        best, calls = shrunk.get((sub.name, sigc), (rec["case"], 0))
        # confirm the shrunk case still fails with this signature in this process' child
        rdir = os.path.join(OUT_DIR, "replays", check_id)
        os.makedirs(rdir, exist_ok=True)
        safe_sig = "".join(ch if ch.isalnum() or ch in "-_." else "_" for ch in signature)[:80]
        path = os.path.join(rdir, f"{safe_sig}-{chash(best)}.json")
        with open(path, "w") as f:
            json.dump(dict(property=check_id, sub=sub.name, signature=signature,
                           message=rec["msg"], tier=tier, seed=seed,
                           failing_cases_seen=rec["count"], shrink_calls=calls,
                           case=best, unshrunk_case=rec["case"]),
                      f, indent=1, default=_json_default)
        rel = os.path.relpath(path, OUT_DIR) if OUT_DIR == VERIF_DIR else path
        print(f"VIOLATION property={check_id} replay={rel}   # {signature}: {rec['msg']} (cases: {rec['count']})")
        stats["violation_sigs"].append(dict(signature=signature, cases=rec["count"], replay=rel))
        violations += 1

    for path, signature, msg in regress["violations"]:
        rel = os.path.relpath(path, VERIF_DIR)
        print(f"VIOLATION property={check_id} replay={rel}   # {signature}: {msg} (regression input)")
        stats["violation_sigs"].append(dict(signature=signature, cases=1, replay=rel))
        violations += 1
    for signature, desc in regress["known"]:
        if not any(k["signature"] == signature for k in stats["known"]):
            print(f"KNOWN-FINDING: property={check_id} {signature} {desc} (regression input)")
            stats["known"].append(dict(signature=signature, cases=1))
    wall = time.time() - t0
    if stats["distinct_nontrivial"] < 2 and not only_sub:
        print(f"HARNESS-ERROR property={check_id}: fewer than 2 distinct non-trivial cases generated")
        return 2
    extra = getattr(mod, "extra_evidence", None)
    write_evidence(check_id, mod, tier, seed, stats, wall, violations,
                   extra(tier) if extra else None)
    print(f"{check_id} tier={tier} seed={seed} evaluations={stats['evaluations']} "
          f"distinct_nontrivial={stats['distinct_nontrivial']} inconclusive={stats['inconclusive']} "
          f"skipped={stats['skipped']} known={len(stats['known'])} violations={violations} wall={wall:.1f}s")
    return 1 if violations else 0


def _regress_one(args):
    check_id, path = args
    _quiet_env()
    try:
        mod = _load_check(check_id)
        with open(path) as f:
            rec = json.load(f)
        sub = None
        for t in (rec.get("tier", "quick"), "thorough", "quick"):
            try:
                sub = _find_sub(mod, t, rec["sub"])
                break
            except HarnessError:
                continue
        if sub is None:
            return ("harness", path, f"no sub-check {rec['sub']}")
        out = safe_run(sub, rec["case"])
        tag = ("@" + rec["tag"]) if rec.get("tag") else ""      # input-specific signature for recorded findings
        return ("ok", path, [(f"{sub.name}/{s}{tag}", m) for s, m in out.fails])
    except Exception as exc:
        return ("harness", path, f"{type(exc).__name__}: {exc}")


def _run_regress(check_id, mod, tier, known):
    import glob
    files = sorted(glob.glob(os.path.join(VERIF_DIR, "regress", check_id, "*.json")))
    res = dict(n=len(files), violations=[], known=[], harness=[])
    if not files:
        return res
    ctx = mp.get_context("spawn")
    with ctx.Pool(min(NPROC, len(files))) as pool:
        for status, path, payload in pool.map(_regress_one, [(check_id, f) for f in files], chunksize=1):
            if status != "ok":
                res["harness"].append(f"regress {path}: {payload}")
                continue
            for signature, msg in payload:
                desc = match_known(known, check_id, signature)
                if desc is not None:
                    res["known"].append((signature, desc))
                else:
                    res["violations"].append((path, signature, msg))
    return res


def replay(check_id, path):
    os.environ["VERIF_WORKER_STDOUT"] = "1"
    _quiet_env()
    mod = _load_check(check_id)
    with open(path) as f:
        rec = json.load(f)
    tier = rec.get("tier", "quick")
    sub = None
    for t in (tier, "thorough", "quick"):
        try:
            sub = _find_sub(mod, t, rec["sub"])
            break
        except HarnessError:
            continue
    if sub is None:
        print(f"HARNESS-ERROR no sub-check {rec['sub']}")
        return 2
    known = load_known()
    try:
        out = safe_run(sub, rec["case"])
    except HarnessError as exc:
        print("HARNESS-ERROR", exc)
        return 2
    bad = 0
    for sigc, msg in out.fails:
        signature = f"{sub.name}/{sigc}"
        desc = match_known(known, check_id, signature)
        if desc is not None:
            print(f"KNOWN-FINDING: property={check_id} {signature} {desc}")
        else:
            print(f"VIOLATION property={check_id} replay={path}   # {signature}: {msg}")
            bad += 1
    if not out.fails:
        print(f"replay of {path}: case passes")
    return 1 if bad else 0
