"""R-ibm: independent-boson (pure dephasing) closed form with the documented
memory settings (R-mem), and R-modes: explicit system + oscillator modes."""
import numpy as np
from scipy.linalg import expm

from vlib.refs import corr as R
from vlib.refs.anc import lindblad_liouvillian


def eta_sequence(sd, dt, N, K, tau):
    """eta_n for n = 0..N under the memory settings (K = dkmax or None, tau =
    add_correlation_time or None), from the independent quadrature R-corr"""
    cache = {}

    def cells(k):
        if k not in cache:
            cache[k] = R.cell(sd, dt, k)
        return cache[k]
    rc = {}

    def rects(L):
        key = round(L / dt, 9)
        if key not in rc:
            rc[key] = R.rect(sd, K * dt, K * dt + L, dt)
        return rc[key]
    etas = [R.included_eta(cells, rects, n, K, tau, dt) for n in range(N + 1)]
    ncalls = len(cache) + len(rc)
    scale = max([abs(v) for v in cache.values()] + [abs(v) for v in rc.values()] + [0.0])
    return etas, ncalls, scale


def states(E, o, rho0_eig, etas, dt, deph=()):
    """rho_ij(n) in the common eigenbasis; deph: list of (gamma, a) with A = diag(a)"""
    E = np.asarray(E, dtype=float)
    o = np.asarray(o, dtype=float)
    d = len(o)
    om = o[:, None] - o[None, :]
    op = o[:, None] + o[None, :]
    dE = E[:, None] - E[None, :]
    rate = np.zeros((d, d), dtype=complex)
    for g, a in deph:
        a = np.asarray(a, dtype=complex)
        rate += g * (a[:, None] * np.conj(a[None, :]) - 0.5 * np.abs(a[:, None]) ** 2 - 0.5 * np.abs(a[None, :]) ** 2)
    out = []
    for n, eta in enumerate(etas):
        t = n * dt
        out.append(rho0_eig * np.exp(-1j * dE * t + rate * t)
                   * np.exp(-om * (eta.real * om + 1j * eta.imag * op)))
    return np.array(out)


# ---- R-modes -----------------------------------------------------------------

def modes_dynamics(d, O, liouvillian, rho0, modes, T, nmax, N, dt):
    """explicit evolution of system (x) truncated oscillators with the symmetric
    splitting e^{L_S dt/2} e^{-i(H_B + O (x) X)dt}(.) e^{L_S dt/2}"""
    dims = [nmax] * len(modes)
    Ed = int(np.prod(dims))
    HB = np.zeros((Ed, Ed))
    X = np.zeros((Ed, Ed))
    rhoB = np.eye(1)
    for m, (w, g) in enumerate(modes):
        a = np.diag(np.sqrt(np.arange(1, nmax)), 1)
        num = a.T @ a
        x = a + a.T
        pre = np.eye(int(np.prod(dims[:m])))
        post = np.eye(int(np.prod(dims[m + 1:])))
        HB = HB + w * np.kron(np.kron(pre, num), post)
        X = X + g * np.kron(np.kron(pre, x), post)
        p = np.exp(-w * np.arange(nmax) / T) if T > 0 else np.eye(nmax)[0]
        p = p / p.sum()
        rhoB = np.kron(rhoB, np.diag(p))
    Henv = np.kron(np.eye(d), HB) + np.kron(O, X)
    U = expm(-1j * Henv * dt)
    Ud = U.conj().T
    P = expm(liouvillian * dt / 2.0)
    rho = np.kron(rho0, rhoB)
    D = d * Ed

    def sys_super(rho, S):
        t = rho.reshape(d, Ed, d, Ed).transpose(0, 2, 1, 3).reshape(d * d, Ed * Ed)
        t = S @ t
        return t.reshape(d, d, Ed, Ed).transpose(0, 2, 1, 3).reshape(D, D)
    red = lambda r: np.einsum('aebe->ab', r.reshape(d, Ed, d, Ed))
    out = [red(rho)]
    for _ in range(N):
        rho = sys_super(rho, P)
        rho = U @ rho @ Ud
        rho = sys_super(rho, P)
        out.append(red(rho))
    return np.array(out)
