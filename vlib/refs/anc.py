"""R-anc: hand-built process tensors from finite ancilla environments with a
known joint evolution, and the explicit joint evolution itself.

Conventions (validated against the pinned tree to 1e-15, see DESIGN section 3):
  * Liouville vec is row-major: vec(A rho B) = (A kron B^T) vec(rho).
  * MPO tensor axes [past bond a, future bond b, system in i, system out o];
    from the joint superoperator L on S(x)E:  M[a,b,i,o] = L[(o,b),(i,a)].
  * per step of compute_dynamics: pre-control, record, post-control,
    first-half system propagator, MPO tensors in list order, second half.
"""
import numpy as np
from scipy.linalg import expm


def kraus_list(U, d, e, noise=None):
    """Kraus operators on S(x)E of 'unitary U, then a channel on the ancilla'."""
    if noise is None:
        return [U]
    kind, p = noise
    if kind == "dephase":
        ks = [np.sqrt(1 - p) * np.eye(e)]
        for j in range(e):
            P = np.zeros((e, e))
            P[j, j] = 1.0
            ks.append(np.sqrt(p) * P)
    elif kind == "damp":
        # amplitude damping of every level j>0 into level 0 with probability p
        K0 = np.eye(e)
        for j in range(1, e):
            K0[j, j] = np.sqrt(1 - p)
        ks = [K0]
        for j in range(1, e):
            K = np.zeros((e, e))
            K[0, j] = np.sqrt(p)
            ks.append(K)
    else:
        raise ValueError(kind)
    return [np.kron(np.eye(d), A) @ U for A in ks]


def joint_super(kraus, d, e):
    """superoperator of rho -> sum K rho K^dag as tensor L[o,b,i,a]
    (o,i: system out/in in d^2; b,a: ancilla out/in in e^2)"""
    L = np.zeros((d * d, e * e, d * d, e * e), dtype=complex)
    for K in kraus:
        Kt = K.reshape(d, e, d, e)
        L += np.einsum('sftg,uhvk->sufhtvgk', Kt, Kt.conj()).reshape(d * d, e * e, d * d, e * e)
    return L


def mpo_tensors(d, e, kraus_steps, rhoE):
    """list of rank-4 MPO tensors [a,b,i,o] for the N steps"""
    N = len(kraus_steps)
    trE = np.eye(e).reshape(-1)
    out = []
    for k, ks in enumerate(kraus_steps):
        M = np.transpose(joint_super(ks, d, e), (3, 1, 2, 0))     # [a,b,i,o]
        if k == 0:
            M = np.einsum('abio,a->bio', M, rhoE.reshape(-1))[None]
        if k == N - 1:
            M = np.einsum('abio,b->aio', M, trE)[:, None]
        out.append(M)
    return out


def make_pt(d, tensors, dt=None, rank3=False, transform_in=None, transform_out=None,
            name=None, description=None):
    import oqupy
    pt = oqupy.process_tensor.SimpleProcessTensor(
        d, dt=dt, transform_in=transform_in, transform_out=transform_out,
        name=name, description=description)
    for k, M in enumerate(tensors):
        if rank3:
            M = np.einsum('abii->abi', M)
        pt.set_mpo_tensor(k, np.array(M))
    pt.compute_caps()
    return pt


def is_delta(M, tol=1e-12):
    D = np.einsum('abii->abi', M)
    return np.abs(M - np.einsum('abi,ij->abij', D, np.eye(M.shape[2]))).max() < tol


def rotate_rank4(tensors, W):
    """store rank-4 tensors in the Liouville basis W: T_in=W, T_out=W^dag"""
    Wd = W.conj().T
    return [np.einsum('ix,abxy,yj->abij', Wd, M, W) for M in tensors]


def controlled_unitary(Ws):
    """U = sum_s |s><s| (x) W_s  (interaction diagonal in the system basis)"""
    d = len(Ws)
    e = Ws[0].shape[0]
    U = np.zeros((d * e, d * e), dtype=complex)
    for s in range(d):
        U[s * e:(s + 1) * e, s * e:(s + 1) * e] = Ws[s]
    return U


class Joint:
    """explicit density matrix on S (x) E_1 (x) ... (x) E_n"""

    def __init__(self, d, e_list, rho0, rhoE_list):
        self.d = d
        self.es = list(e_list)
        self.dims = [d] + self.es
        self.D = int(np.prod(self.dims))
        rho = np.array(rho0, dtype=complex)
        for r in rhoE_list:
            rho = np.kron(rho, r)
        self.rho = rho

    def sys_super(self, S):
        d, D = self.d, self.D
        E = D // d
        t = self.rho.reshape(d, E, d, E).transpose(0, 2, 1, 3).reshape(d * d, E * E)
        t = S @ t
        self.rho = t.reshape(d, d, E, E).transpose(0, 2, 1, 3).reshape(D, D)

    def _embed(self, K, j):
        """operator K on S(x)E_j embedded in the full space"""
        n = len(self.dims)
        d, e = self.d, self.es[j]
        Kt = K.reshape(d, e, d, e)
        full = np.zeros(self.dims + self.dims, dtype=complex)
        # identity on all other factors
        others = [i for i in range(1, n) if i != 1 + j]
        eye = np.eye(int(np.prod([self.dims[i] for i in others])) if others else 1)
        eye = eye.reshape([self.dims[i] for i in others] * 2) if others else eye.reshape(())
        # build via einsum-free approach: outer product then transpose
        outer = np.multiply.outer(Kt, eye)          # axes: s,ej,s',ej', others..., others'...
        # target axes order: [s, E_1..E_n, s', E_1'..E_n']
        no = len(others)
        src = {}
        src[('o', 0)] = 0
        src[('o', 1 + j)] = 1
        src[('i', 0)] = 2
        src[('i', 1 + j)] = 3
        for t, i in enumerate(others):
            src[('o', i)] = 4 + t
            src[('i', i)] = 4 + no + t
        perm = [src[('o', i)] for i in range(n)] + [src[('i', i)] for i in range(n)]
        return np.transpose(outer, perm).reshape(self.D, self.D)

    def env_kraus(self, kraus, j):
        new = np.zeros_like(self.rho)
        for K in kraus:
            F = self._embed(K, j)
            new += F @ self.rho @ F.conj().T
        self.rho = new

    def reduced(self):
        d, D = self.d, self.D
        E = D // d
        return np.einsum('aebe->ab', self.rho.reshape(d, E, d, E))


def ref_dynamics(d, envs, rho0, props, N, controls=None):
    """envs: list of dict(e, kraus_steps, rhoE); props(k) -> (P1, P2) system
    superoperators (matrices acting on row-major vec); controls: dict
    step -> (pre or None, post or None).  Returns states at steps 0..N."""
    J = Joint(d, [en["e"] for en in envs], rho0, [en["rhoE"] for en in envs])
    out = []
    k = 0
    controls = controls or {}
    while True:
        pre, post = controls.get(k, (None, None))
        if pre is not None:
            J.sys_super(pre)
        out.append(J.reduced())
        if k == N:
            break
        if post is not None:
            J.sys_super(post)
        P1, P2 = props(k)
        J.sys_super(P1)
        for j, en in enumerate(envs):
            J.env_kraus(en["kraus_steps"][k], j)
        J.sys_super(P2)
        k += 1
    return np.array(out)


def forward_contract(pts, rho0, props, N, d):
    """R-fwd: plain tensordot forward contraction over get_mpo_tensor /
    get_cap_tensor of arbitrary process tensors; returns the final state"""
    T = np.asarray(rho0, dtype=complex).reshape([1] * len(pts) + [d * d])
    for k in range(N):
        P1, P2 = props(k)
        T = np.tensordot(T, P1.T, axes=([-1], [0]))
        for j, pt in enumerate(pts):
            M = pt.get_mpo_tensor(k)
            if M.ndim == 3:
                M = np.einsum('abi,ij->abij', M, np.eye(d * d))
            T = np.tensordot(T, M, axes=([j, -1], [0, 2]))
            T = np.moveaxis(T, -2, j)
        T = np.tensordot(T, P2.T, axes=([-1], [0]))
    for j, pt in enumerate(pts):
        T = np.tensordot(T, pt.get_cap_tensor(N), axes=([0], [0]))
    return T.reshape(d, d)


def lindblad_liouvillian(H, gammas=(), lops=()):
    """row-major Liouvillian of -i[H,.] + sum g (L . L^dag - 1/2 {L^dag L, .})"""
    d = H.shape[0]
    I = np.eye(d)
    L = -1j * (np.kron(H, I) - np.kron(I, H.T))
    for g, A in zip(gammas, lops):
        AdA = A.conj().T @ A
        L = L + g * (np.kron(A, A.conj()) - 0.5 * np.kron(AdA, I) - 0.5 * np.kron(I, AdA.T))
    return L


def half_props(H, dt, gammas=(), lops=()):
    P = expm(lindblad_liouvillian(H, gammas, lops) * dt / 2.0)
    return P
