"""R-corr: independent frequency-domain reference for bath correlation
functions, their 2D cell integrals, the reorganisation energy and the
imaginary-time (Matsubara) kernel.  Uses only numpy/scipy; imports nothing
from oqupy.

A spectral density is described by a plain dict ("spec"):

  {"type": "powerlaw", "alpha": a, "zeta": z, "wc": wc, "cutoff_type": ct, "T": T}
  {"type": "custom", "terms": [[c, p], ...], "bump": [A, w0, g] | None,
   "wc": wc, "cutoff_type": ct, "T": T}
        j(w) = sum_k c_k w^p_k + A w g / ((w-w0)^2 + g^2)        (j >= 0)

J(w) = j(w) X(w, wc).
"""
import math
from functools import lru_cache

import numpy as np
from scipy import integrate, special

TWO_PI = 2.0 * math.pi


def j_callable(spec):
    """the bare j-function (no cut-off) as a python callable of a float"""
    if spec["type"] == "powerlaw":
        a, z, wc = spec["alpha"], spec["zeta"], spec["wc"]
        return lambda w: 2.0 * a * w ** z * wc ** (1.0 - z)
    terms = [(float(c), float(p)) for c, p in spec["terms"]]
    bump = spec.get("bump")

    def j(w):
        s = 0.0
        for c, p in terms:
            s += c * w ** p
        if bump:
            A, w0, g = bump
            s += A * w * g / ((w - w0) ** 2 + g ** 2)
        return s
    return j


def cutoff_fn(spec):
    wc, ct = spec["wc"], spec["cutoff_type"]
    if ct == "hard":
        return lambda w: 1.0 if w < wc else 0.0
    if ct == "exponential":
        return lambda w: math.exp(-w / wc)
    if ct == "gaussian":
        return lambda w: math.exp(-(w / wc) ** 2)
    raise ValueError(ct)


def upper_bound(spec):
    wc, ct = spec["wc"], spec["cutoff_type"]
    if ct == "hard":
        return wc
    if ct == "exponential":
        return wc * 80.0
    return wc * 9.0


def lowest_power(spec):
    if spec["type"] == "powerlaw":
        return spec["zeta"]
    ps = [p for c, p in spec["terms"] if c != 0]
    if spec.get("bump"):
        ps.append(1.0)
    return min(ps) if ps else 1.0


def spectral_density(spec, w):
    return j_callable(spec)(w) * cutoff_fn(spec)(w)


def coth(x):
    if x > 18.0:
        return 1.0 + 2.0 * math.exp(-2.0 * x)
    return 1.0 / math.tanh(x)


def _pieces(spec, t_osc):
    """break [0, ub] into pieces that contain few oscillations of exp(i w t)
    and isolate the low-frequency (thermal) region"""
    ub = upper_bound(spec)
    T = spec["T"]
    pts = {0.0, ub}
    for p in (1e-6, 1e-3, 1e-2, 0.1, T, 2 * T, 5 * T, 12 * T, 36 * T, spec["wc"],
              0.5 * spec["wc"], 2 * spec["wc"], 4 * spec["wc"], 10 * spec["wc"]):
        if 0.0 < p < ub:
            pts.add(float(p))
    if spec.get("bump"):
        A, w0, g = spec["bump"]
        for p in (w0 - 3 * g, w0 - g, w0, w0 + g, w0 + 3 * g):
            if 0.0 < p < ub:
                pts.add(float(p))
    if t_osc > 0:
        step = 6.0 * TWO_PI / t_osc
        n = int(ub / step)
        if n > 4000:
            raise ValueError("too oscillatory for the reference quadrature")
        for k in range(1, n + 1):
            pts.add(k * step)
    return sorted(pts)


def _quad_pieces(f, edges, singular_power=None):
    tot = 0.0
    err = 0.0
    for i, (a, b) in enumerate(zip(edges[:-1], edges[1:])):
        if i == 0 and singular_power is not None and singular_power < 0:
            # integrand ~ w^singular_power at 0: algebraic end-point weight
            g = lambda w: f(w) * w ** (-singular_power) if w > 0 else 0.0
            v, e = integrate.quad(g, a, b, weight="alg", wvar=(singular_power, 0.0),
                                  epsabs=1e-15, epsrel=1e-12, limit=400)
        else:
            v, e = integrate.quad(f, a, b, epsabs=1e-15, epsrel=1e-12, limit=400)
        tot += v
        err += e
    return tot, err


def _freq_integral(spec, kern_re, kern_im, t_osc, thermal_in_re=True):
    """int_0^inf J(w) [coth(w/2T) kern_re(w) - i kern_im(w)] dw   (kern_* real)
    kern_re(w)/kern_im(w) already contain any 1/w^2 factor."""
    J = lambda w: spectral_density(spec, w)
    T = spec["T"]
    edges = _pieces(spec, t_osc)

    def fre(w):
        if w <= 0.0:
            return 0.0
        c = coth(w / (2.0 * T)) if T > 0 else 1.0
        return J(w) * c * kern_re(w)

    def fim(w):
        if w <= 0.0:
            return 0.0
        return J(w) * kern_im(w)

    re, ere = _quad_pieces(fre, edges)
    im, eim = _quad_pieces(fim, edges)
    return complex(re, -im), ere + eim


def _one_minus_cos(x):
    return 2.0 * math.sin(0.5 * x) ** 2


def _x_minus_sin(x):
    if abs(x) < 1e-2:
        return x ** 3 / 6.0 - x ** 5 / 120.0 + x ** 7 / 5040.0
    return x - math.sin(x)


def correlation(spec, t):
    """C(t) = int J [cos(wt) coth(w/2T) - i sin(wt)] dw"""
    v, _ = _freq_integral(spec, lambda w: math.cos(w * t), lambda w: math.sin(w * t), abs(t))
    return v


def eta(spec, t):
    """eta(t) = int_0^t dt' int_0^t' dt'' C(t'-t'')
              = int J/w^2 [(1-cos wt) coth - i (wt - sin wt)]"""
    if t == 0:
        return 0j
    v, _ = _freq_integral(
        spec,
        lambda w: _one_minus_cos(w * t) / (w * w),
        lambda w: _x_minus_sin(w * t) / (w * w),
        abs(t))
    return v


def rect(spec, a, b, dt):
    """int_a^b dt' int_0^dt dt'' C(t'-t'')   (a >= dt: no kink inside)"""
    # int_a^b cos(w(t'-t'')) = Re F, sin -> Im F with
    # F = -(e^{iwb}-e^{iwa})(1-e^{-iw dt})/w^2
    def F(w):
        return -(np.exp(1j * w * b) - np.exp(1j * w * a)) * (1.0 - np.exp(-1j * w * dt)) / (w * w)
    v, _ = _freq_integral(spec, lambda w: F(w).real, lambda w: F(w).imag, abs(b))
    return v


def cell(spec, dt, k):
    """k = 0: upper triangle of size dt; k >= 1: square at distance k dt"""
    if k == 0:
        return eta(spec, dt)
    return rect(spec, k * dt, (k + 1) * dt, dt)


def reorganisation(spec):
    """lambda = int J(w)/w dw"""
    J = lambda w: spectral_density(spec, w)
    edges = _pieces(spec, 0.0)
    v, _ = _quad_pieces(lambda w: J(w) / w if w > 0 else 0.0, edges)
    return v


def matsubara_kernel(spec, tau):
    """K(tau) = int J cosh(w(beta/2 - tau))/sinh(w beta/2), 0 <= tau <= beta"""
    beta = 1.0 / spec["T"]
    J = lambda w: spectral_density(spec, w)

    def f(w):
        if w <= 0:
            return 0.0
        # (e^{-w tau} + e^{-w (beta - tau)})/(1 - e^{-w beta})
        return J(w) * (math.exp(-w * tau) + math.exp(-w * (beta - tau))) / (-math.expm1(-w * beta))
    v, _ = _quad_pieces(f, _pieces(spec, 0.0))
    return v


def matsubara_triangle(spec, tau):
    """int_0^tau dt' int_0^t' dt'' K(t'-t'')  (real, >= 0);  = beta*lambda at tau = beta.
    The library's imaginary-time eta is minus this (t -> -i tau)."""
    beta = 1.0 / spec["T"]
    J = lambda w: spectral_density(spec, w)

    def f(w):
        if w <= 0:
            return 0.0
        # per frequency: int_0^tau (tau-s) cosh(w(beta/2-s))/sinh(w beta/2) ds
        #  = tau/w - (1-e^{-w(beta-tau)})(1-e^{-w tau}) / (w^2 (1-e^{-w beta}))
        num = math.expm1(-w * (beta - tau)) * math.expm1(-w * tau)
        return J(w) * (tau / w - num / (w * w * (-math.expm1(-w * beta))))
    v, _ = _quad_pieces(f, _pieces(spec, 0.0))
    return v


def closed_form_eta_exp_T0(alpha, zeta, wc, t):
    """eta(t) for J = 2 alpha w^zeta wc^(1-zeta) e^{-w/wc} at T=0:
    C(t) = 2 alpha wc^(1-zeta) Gamma(zeta+1) / (1/wc + i t)^(zeta+1);
    eta = int_0^t (t-s) C(s) ds in closed form (zeta not in {0, 1})"""
    A = 2.0 * alpha * wc ** (1.0 - zeta) * special.gamma(zeta + 1.0)
    a = 1.0 / wc
    z = a + 1j * t
    # int_0^t (t-s)(a+is)^-(zeta+1) ds ; with u=a+is: s=(u-a)/i
    # I1 = int_0^t (a+is)^(-zeta-1) ds = [ (a+is)^(-zeta) / (-zeta i) ]
    # I2 = int_0^t s (a+is)^(-zeta-1) ds
    if abs(zeta - 1.0) < 1e-12:
        # zeta=1: C = A/(a+is)^2 ; eta = A [ log(1+it/a) ... ]
        # int_0^t (t-s)/(a+is)^2 ds = -log(z/a) - ... compute directly:
        # primitive of (a+is)^-2 is i/(a+is); primitive of s(a+is)^-2: via u
        I1 = (1j / z) - (1j / a)
        # s = (u-a)/i ; ds = du/i ; int (u-a)/(i) u^-2 du/i = -int (u-a)u^-2 du = -(log u + a/u)
        I2 = -((np.log(z) + a / z) - (np.log(a) + 1.0))
        return A * (t * I1 - I2)
    I1 = (z ** (-zeta) - a ** (-zeta)) / (-zeta * 1j)
    # int s u^(-zeta-1) ds with s=(u-a)/i, ds=du/i: -(int (u-a) u^(-zeta-1) du)
    prim = lambda u: u ** (1.0 - zeta) / (1.0 - zeta) - a * u ** (-zeta) / (-zeta)
    I2 = -(prim(z) - prim(a + 0j))
    return A * (t * I1 - I2)


def closed_form_corr_exp_T0(alpha, zeta, wc, t):
    A = 2.0 * alpha * wc ** (1.0 - zeta) * special.gamma(zeta + 1.0)
    return A / (1.0 / wc + 1j * t) ** (zeta + 1.0)


# ---- finite mode sets (closed forms) ---------------------------------------

def modes_correlation(modes, T, t):
    """C(t) = sum g^2 [(2n+1) cos wt - i sin wt]"""
    s = 0j
    for w, g in modes:
        nb = 0.0 if T == 0 else 1.0 / math.expm1(w / T)
        s += g * g * ((2 * nb + 1) * math.cos(w * t) - 1j * math.sin(w * t))
    return s


def modes_eta(modes, T, t):
    s = 0j
    for w, g in modes:
        nb = 0.0 if T == 0 else 1.0 / math.expm1(w / T)
        s += g * g / (w * w) * ((2 * nb + 1) * _one_minus_cos(w * t) - 1j * _x_minus_sin(w * t))
    return s


# ---- memory model R-mem ----------------------------------------------------

def included_eta(cells, rects, n, K, tau, dt):
    """eta_n under the documented memory settings.
    cells[k]: cell integral at distance k; rects(L): rectangle [K dt, K dt+L]x[0,dt].
    K None = full memory."""
    tot = 0j
    for k in range(n):
        for kp in range(k + 1):
            d = k - kp
            if K is None or d < K:
                tot += cells(d)
            elif d == K:
                if tau is None:
                    tot += cells(d)
                else:
                    L = min((k + 1 - K) * dt, dt + tau)
                    tot += rects(L)
    return tot
