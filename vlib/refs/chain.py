"""R-chain: dense reference for chains (<= 5 sites) with optional ancilla
environments attached to sites.

The joint state is a tensor rho[s_0..s_{n-1}, a_0..a_{m-1}; s'_0.., a'_0..].
Two-site Liouvillians use the index order (l l')(r r') (validated: PT-TEBD's
SystemChain.get_nn_full_liouvillians()).
"""
import numpy as np
from scipy.linalg import expm

from vlib.refs.anc import lindblad_liouvillian


def nn_hamiltonian_liouvillian(A, B):
    """-i [A (x) B, .] on two sites in (l l')(r r') ordering"""
    Il = np.eye(A.shape[0])
    Ir = np.eye(B.shape[0])
    return -1j * (np.kron(np.kron(A, Il), np.kron(B, Ir))
                  - np.kron(np.kron(Il, A.T), np.kron(Ir, B.T)))


def nn_dissipator_liouvillian(Al, Ar, gamma):
    Il = np.eye(Al.shape[0])
    Ir = np.eye(Ar.shape[0])
    Nl = Al.conj().T @ Al
    Nr = Ar.conj().T @ Ar
    return gamma * (np.kron(np.kron(Al, Al.conj()), np.kron(Ar, Ar.conj()))
                    - 0.5 * np.kron(np.kron(Nl, Il), np.kron(Nr, Ir))
                    - 0.5 * np.kron(np.kron(Il, Nl.T), np.kron(Ir, Nr.T)))


class Dense:
    def __init__(self, site_dims, rhos, anc=None):
        """anc: list of (site, e, rhoE) ancillas"""
        self.ds = list(site_dims)
        self.n = len(self.ds)
        self.anc = list(anc or [])
        self.dims = self.ds + [a[1] for a in self.anc]
        self.m = len(self.dims)
        mats = list(rhos) + [a[2] for a in self.anc]
        t = np.array(1.0 + 0j)
        for r in mats:
            t = np.multiply.outer(t, np.asarray(r, dtype=complex))
        # axes now (x0,x0',x1,x1',...) -> (x0,x1,...,x0',x1',...)
        perm = list(range(0, 2 * self.m, 2)) + list(range(1, 2 * self.m, 2))
        self.rho = np.transpose(t, perm)

    def apply_super(self, sites, S):
        """S: Liouville matrix acting on vec index (s_a s_a' s_b s_b' ...) of `sites`"""
        m = self.m
        k = len(sites)
        ds = [self.dims[s] for s in sites]
        shape = []
        for d in ds:
            shape += [d, d]
        St = np.asarray(S).reshape(shape + shape)   # out (s s' ...), in (s s' ...)
        in_axes_S = list(range(2 * k, 4 * k))
        rho_axes = []
        for s in sites:
            rho_axes += [s, m + s]
        t = np.tensordot(St, self.rho, axes=(in_axes_S, rho_axes))
        # result axes: out (s_a, s_a', s_b, s_b', ...) then remaining rho axes in order
        rest = [a for a in range(2 * m) if a not in rho_axes]
        cur = rho_axes + rest
        self.rho = np.transpose(t, np.argsort(cur))

    def apply_kraus(self, site, anc_index, kraus):
        """Kraus operators on site (x) ancilla (ancilla anc_index)"""
        m = self.m
        a = self.n + anc_index
        d, e = self.dims[site], self.dims[a]
        new = np.zeros_like(self.rho)
        for K in kraus:
            Kt = K.reshape(d, e, d, e)
            t = np.tensordot(Kt, self.rho, axes=([2, 3], [site, a]))
            rest = [x for x in range(2 * m) if x not in (site, a)]
            t = np.transpose(t, np.argsort([site, a] + rest))
            t = np.tensordot(Kt.conj(), t, axes=([2, 3], [m + site, m + a]))
            rest = [x for x in range(2 * m) if x not in (m + site, m + a)]
            t = np.transpose(t, np.argsort([m + site, m + a] + rest))
            new += t
        self.rho = new

    def reduced(self, sites):
        m = self.m
        keep = list(sites)
        letters = "abcdefghijklmnopqrstuvwxyzABCDEFGHIJKLMNOPQRSTUVWXYZ"
        row = [letters[i] for i in range(m)]
        col = [letters[m + i] if i in keep else letters[i] for i in range(m)]
        out = [letters[i] for i in keep] + [letters[m + i] for i in keep]
        t = np.einsum("".join(row + col) + "->" + "".join(out), self.rho)
        D = int(np.prod([self.dims[i] for i in keep]))
        return t.reshape(D, D)

    def trace(self):
        return self.reduced([])[0, 0] if False else np.einsum(
            "".join("abcdefghijklmnopqrstuvwxyz"[:self.m]) * 2, self.rho)


def full_liouvillian(site_dims, site_L, nn_L):
    """dense Liouvillian of the whole chain in (s0 s0' s1 s1' ...) ordering"""
    n = len(site_dims)
    D2 = [d * d for d in site_dims]
    tot = np.zeros((int(np.prod(D2)),) * 2, dtype=complex)
    for i in range(n):
        left = int(np.prod(D2[:i]))
        right = int(np.prod(D2[i + 1:]))
        tot += np.kron(np.kron(np.eye(left), site_L[i]), np.eye(right))
    for i in range(n - 1):
        left = int(np.prod(D2[:i]))
        right = int(np.prod(D2[i + 2:]))
        tot += np.kron(np.kron(np.eye(left), nn_L[i]), np.eye(right))
    return tot


def product_vec(rhos):
    v = np.array(1.0 + 0j)
    for r in rhos:
        v = np.multiply.outer(v, np.asarray(r, dtype=complex))
    return v.reshape(-1)


def vec_to_rho(v, site_dims, sites=None):
    """reduced density matrix of `sites` from the full vec (s0 s0' s1 s1' ...)"""
    n = len(site_dims)
    shape = []
    for d in site_dims:
        shape += [d, d]
    t = v.reshape(shape)
    sites = list(range(n)) if sites is None else list(sites)
    for i in reversed(range(n)):
        if i not in sites:
            t = np.trace(t, axis1=2 * i, axis2=2 * i + 1)
    k = len(sites)
    perm = list(range(0, 2 * k, 2)) + list(range(1, 2 * k, 2))
    t = np.transpose(t, perm)
    D = int(np.prod([site_dims[i] for i in sites]))
    return t.reshape(D, D)
