"""Generated chains for PT-TEBD (JSON-able), their oqupy objects and dense references."""
import numpy as np
from hypothesis import strategies as st
from scipy.linalg import expm

from vlib import ancgen, gens
from vlib.refs import anc as A
from vlib.refs import chain as RC

PAULI = {
    "x": np.array([[0, 1], [1, 0]], dtype=complex),
    "y": np.array([[0, -1j], [1j, 0]], dtype=complex),
    "z": np.array([[1, 0], [0, -1]], dtype=complex),
}


@st.composite
def site_spec(draw, d, diag_only=False):
    if diag_only:
        H = [[[draw(gens.grid(-2, 2, 4)) if i == j else 0.0, 0.0] for j in range(d)] for i in range(d)]
    else:
        H = draw(gens.herm_spec(d, 2, 4))
    nl = draw(st.integers(0, 1))
    lind = []
    for _ in range(nl):
        if diag_only:
            Aop = [[[draw(gens.grid(-1, 1, 2)) if i == j else 0.0, 0.0] for j in range(d)] for i in range(d)]
        else:
            Aop = draw(gens.cmatrix(d, d, 1, 2))
        lind.append({"g": draw(st.sampled_from([0.1, 0.25, 0.5, 1.0])), "A": Aop})
    return {"H": H, "lind": lind}


@st.composite
def chain_spec(draw, family, n_min=2, n_max=4, dims=(2, 3), allow_pt=True, N=4):
    """family: 'uncoupled' | 'two-site' | 'commuting'"""
    if family == "two-site":
        n = 2
    else:
        n = draw(st.integers(n_min, n_max))
    ds = [draw(st.sampled_from(list(dims))) for _ in range(n)]
    if family == "commuting" or n >= 4:
        ds = [2 if (family == "commuting" or i > 0) else ds[i] for i in range(n)]
    sites = [draw(site_spec(d, diag_only=(family == "commuting"))) for d in ds]
    nn = []
    for i in range(n - 1):
        terms = []
        if family == "two-site":
            for _ in range(draw(st.integers(1, 2))):
                terms.append({"kind": "ham", "c": draw(st.sampled_from([0.25, 0.5, 1.0])),
                              "A": draw(gens.herm_spec(ds[i], 1, 2)), "B": draw(gens.herm_spec(ds[i + 1], 1, 2))})
            if draw(st.booleans()):
                terms.append({"kind": "diss", "c": draw(st.sampled_from([0.1, 0.3])),
                              "A": draw(gens.cmatrix(ds[i], ds[i], 1, 2)), "B": draw(gens.cmatrix(ds[i + 1], ds[i + 1], 1, 2))})
        elif family == "commuting":
            terms.append({"kind": "zz", "c": draw(st.sampled_from([0.25, 0.5, 1.0, -0.75]))})
            if draw(st.booleans()):
                terms.append({"kind": "zzdiss", "c": draw(st.sampled_from([0.1, 0.3]))})
        nn.append(terms)
    pts = []
    for i in range(n):
        if allow_pt and draw(st.integers(0, 2)) == 0:
            kinds = ("controlled",) if family == "commuting" else ("generic", "controlled")
            pts.append(draw(ancgen.env_spec(ds[i], N, allow_transforms=(family != "commuting"), kinds=kinds, e_max=2)))
        else:
            pts.append(None)
    rhos = [draw(gens.dm_spec(d)) for d in ds]
    return {"family": family, "dims": ds, "sites": sites, "nn": nn, "pts": pts, "rhos": rhos}


def _term_ops(t, dl, dr):
    if t["kind"] in ("ham",):
        return gens.herm(t["A"]), gens.herm(t["B"])
    if t["kind"] == "diss":
        return gens.to_c(t["A"]), gens.to_c(t["B"])
    return PAULI["z"], PAULI["z"]


def build_chain(spec):
    import oqupy
    ds = spec["dims"]
    chain = oqupy.SystemChain(ds)
    for i, s in enumerate(spec["sites"]):
        chain.add_site_hamiltonian(i, gens.herm(s["H"]))
        for l in s["lind"]:
            chain.add_site_dissipation(i, gens.to_c(l["A"]), l["g"])
    for i, terms in enumerate(spec["nn"]):
        for t in terms:
            Aop, Bop = _term_ops(t, ds[i], ds[i + 1])
            if t["kind"] in ("ham", "zz"):
                chain.add_nn_hamiltonian(i, t["c"] * Aop, Bop)
            else:
                chain.add_nn_dissipation(i, Aop, Bop, t["c"])
    return chain


def site_liouvillians(spec):
    return [A.lindblad_liouvillian(gens.herm(s["H"]), [l["g"] for l in s["lind"]],
                                   [gens.to_c(l["A"]) for l in s["lind"]]) for s in spec["sites"]]


def nn_liouvillians(spec):
    ds = spec["dims"]
    out = []
    for i, terms in enumerate(spec["nn"]):
        L = np.zeros((ds[i] ** 2 * ds[i + 1] ** 2,) * 2, dtype=complex)
        for t in terms:
            Aop, Bop = _term_ops(t, ds[i], ds[i + 1])
            if t["kind"] in ("ham", "zz"):
                L += RC.nn_hamiltonian_liouvillian(t["c"] * Aop, Bop)
            else:
                L += RC.nn_dissipator_liouvillian(Aop, Bop, t["c"])
        out.append(L)
    return out


def build_envs(spec, N, dt):
    """per site: None or dict from ancgen.build_env"""
    return [None if p is None else ancgen.build_env(p, d, N, dt=dt)
            for p, d in zip(spec["pts"], spec["dims"])]


def initial_states(spec):
    return [gens.build_dm(r) for r in spec["rhos"]]


def dense_reference(spec, envs, N, dt, record, controls=None):
    """exact evolution with the PT-TEBD step structure
    [post-controls, exp(L dt/2), process tensors, exp(L dt/2), pre-controls, record];
    exact for two-site chains and for chains whose gates commute.
    controls: dict (step, post) -> list over sites of Liouville matrices or None.
    record: list of site tuples.  returns dict sites -> array of states (N+1)"""
    ds = spec["dims"]
    n = len(ds)
    rhos = initial_states(spec)
    anc = []
    anc_index = {}
    for i, e in enumerate(envs):
        if e is not None:
            anc_index[i] = len(anc)
            anc.append((i, e["e"], e["rhoE"]))
    Dn = RC.Dense(ds, rhos, anc)
    Lfull = RC.full_liouvillian(ds, site_liouvillians(spec), nn_liouvillians(spec))
    P = expm(Lfull * dt / 2.0)
    controls = controls or {}
    out = {s: [] for s in record}

    def apply_controls(step, post):
        cs = controls.get((step, post))
        if cs is None:
            return
        for site, S in enumerate(cs):
            if S is not None:
                Dn.apply_super([site], S)

    def rec():
        for s in record:
            out[s].append(Dn.reduced(list(s) if isinstance(s, tuple) else [s]))

    apply_controls(0, False)
    rec()
    for k in range(N):
        apply_controls(k, True)
        Dn.apply_super(list(range(n)), P)
        for i, e in enumerate(envs):
            if e is not None:
                Dn.apply_kraus(i, anc_index[i], e["kraus_steps"][k])
        Dn.apply_super(list(range(n)), P)
        apply_controls(k + 1, False)
        rec()
    return {s: np.array(v) for s, v in out.items()}
