"""Generated finite-ancilla environments (JSON-able) and their realisation as
hand-built process tensors + explicit reference data (see vlib/refs/anc.py)."""
import numpy as np
from hypothesis import strategies as st
from scipy.linalg import expm

from vlib import gens
from vlib.refs import anc as A


@st.composite
def env_spec(draw, d, N, allow_noise=True, allow_transforms=True, kinds=("generic", "controlled"),
             e_max=3):
    e = draw(st.integers(1, e_max))
    kind = draw(st.sampled_from(list(kinds)))
    const = draw(st.booleans())
    nh = 1 if const else N
    spec = {"e": e, "kind": kind, "const": const,
            "rhoE": draw(gens.dm_spec(e)),
            "scale": draw(st.sampled_from([0.3, 0.7, 1.0, 1.5]))}
    if kind == "generic":
        spec["hs"] = [draw(gens.herm_spec(d * e, 2, 2)) for _ in range(nh)]
        stores = ["rank4", "rank4"] + (["rank4-rot", "rank4-enlarged", "rank4-in-only", "rank4-out-only"] if allow_transforms else [])
    else:
        spec["ws"] = [[draw(gens.herm_spec(e, 2, 2)) for _ in range(d)] for _ in range(nh)]
        stores = ["rank4", "rank3", "rank3"] + (["rank3-hilbert", "rank4-rot", "rank4-enlarged"] if allow_transforms else [])
    spec["noise"] = None
    if allow_noise and e > 1 and draw(st.integers(0, 3)) == 0:
        spec["noise"] = [draw(st.sampled_from(["dephase", "damp"])),
                         draw(st.sampled_from([0.1, 0.3, 0.5, 1.0]))]
    spec["store"] = draw(st.sampled_from(stores))
    if spec["store"] in ("rank4-rot", "rank4-in-only", "rank4-out-only"):
        spec["rot"] = draw(gens.herm_spec(d * d, 1, 2))
    if spec["store"] == "rank3-hilbert":
        spec["rot"] = draw(gens.unitary_spec(d, allow_identity=False))
    if spec["store"] == "rank4-enlarged":
        spec["extra"] = draw(st.integers(1, 2))
        spec["rot"] = draw(gens.herm_spec(d * d + spec["extra"], 1, 2))
    return spec


def _unitaries(spec, d, N):
    e = spec["e"]
    Us = []
    for k in range(N):
        if spec["kind"] == "generic":
            h = spec["hs"][0 if spec["const"] else k % len(spec["hs"])]      # longer than generated: cycle
            Us.append(expm(-1j * spec["scale"] * gens.herm(h)))
        else:
            ws = spec["ws"][0 if spec["const"] else k % len(spec["ws"])]
            Us.append(A.controlled_unitary([expm(-1j * spec["scale"] * gens.herm(w)) for w in ws]))
    return Us


def build_env(spec, d, N, dt=None, name=None, description=None):
    """returns dict(e, rhoE, kraus_steps (physical), pt, entangling, delta)"""
    from oqupy import operators
    e = spec["e"]
    rhoE = gens.build_dm(spec["rhoE"])
    Us = _unitaries(spec, d, N)
    noise = tuple(spec["noise"]) if spec["noise"] else None
    kraus_diag = [A.kraus_list(U, d, e, noise) for U in Us]
    tensors = A.mpo_tensors(d, e, kraus_diag, rhoE)
    store = spec["store"]
    kraus_phys = kraus_diag
    tin = tout = None
    rank3 = False
    if store == "rank3":
        rank3 = True
    elif store == "rank4-rot":
        W = expm(-1j * gens.herm(spec["rot"]))
        tensors = A.rotate_rank4(tensors, W)
        tin, tout = W, W.conj().T
    elif store == "rank4-in-only":
        # only the input leg is stored rotated: T_in = W, stored M' = W^+ M (per tensor)
        W = expm(-1j * gens.herm(spec["rot"]))
        tensors = [np.einsum('ix,abxy->abiy', W.conj().T, M) for M in tensors]
        tin = W
    elif store == "rank4-out-only":
        W = expm(-1j * gens.herm(spec["rot"]))
        tensors = [np.einsum('abxy,yj->abxj', M, W) for M in tensors]
        tout = W.conj().T
    elif store == "rank4-enlarged":
        # tensors stored in an isometrically enlarged Liouville basis: V (m x d^2), V^+ V = 1;
        # T_in = V^+ (d^2 x m), T_out = V (m x d^2), stored M' = V M V^+
        m = d * d + spec["extra"]
        Wfull = expm(-1j * gens.herm(spec["rot"]))
        V = Wfull[:, :d * d]
        tin, tout = V.conj().T, V
        tensors = [np.einsum('xi,abij,jy->abxy', V, M, V.conj().T) for M in tensors]
    elif store == "rank3-hilbert":
        V = gens.build_unitary(spec["rot"], d)
        rank3 = True
        tin = operators.left_right_super(V.conj().T, V).T
        tout = operators.left_right_super(V, V.conj().T).T
        VE = np.kron(V, np.eye(e))
        kraus_phys = [[VE @ K @ VE.conj().T for K in ks] for ks in kraus_diag]
    pt = A.make_pt(d, tensors, dt=dt, rank3=rank3, transform_in=tin, transform_out=tout,
                   name=name, description=description)
    # entangling: the joint unitary is not a product operator on S(x)E
    ent = False
    if e > 1:
        U = Us[0].reshape(d, e, d, e).transpose(0, 2, 1, 3).reshape(d * d, e * e)
        sv = np.linalg.svd(U, compute_uv=False)
        ent = bool(np.sum(sv > 1e-9) > 1)
    return dict(e=e, rhoE=rhoE, kraus_steps=kraus_phys, pt=pt, entangling=ent,
                delta=spec["kind"] == "controlled" and store != "rank3-hilbert",
                store=store)


# ---- control operations ----------------------------------------------------

@st.composite
def control_op_spec(draw, d, invertible=False):
    """invertible=True: the non-trace-preserving multiplications use 1 + a/8 (never annihilate a state; a chain whose
    state has been mapped to exactly zero cannot be truncated and is outside the sensible input domain)"""
    kind = draw(st.sampled_from(["unitary", "dephase", "damp", "left", "right", "leftright", "identity"]))
    spec = {"kind": kind}
    if invertible and kind in ("left", "right", "leftright"):
        spec["shift"] = True
    if kind == "unitary":
        spec["u"] = draw(gens.unitary_spec(d, allow_identity=False))
    elif kind in ("dephase", "damp"):
        spec["p"] = draw(st.sampled_from([0.25, 0.5, 1.0]))
    elif kind in ("left", "right", "leftright"):
        spec["a"] = draw(gens.cmatrix(d, d, 1, 2))
        if kind == "leftright":
            spec["b"] = draw(gens.cmatrix(d, d, 1, 2))
    return spec


def build_control_op(spec, d):
    """Liouville-space matrix acting on row-major vec(rho)"""
    I = np.eye(d)
    k = spec["kind"]
    if k == "identity":
        return np.eye(d * d, dtype=complex)
    if k == "unitary":
        U = gens.build_unitary(spec["u"], d)
        return np.kron(U, U.conj())
    if k == "dephase":
        p = spec["p"]
        S = (1 - p) * np.eye(d * d, dtype=complex)
        for j in range(d):
            P = np.zeros((d, d))
            P[j, j] = 1
            S += p * np.kron(P, P)
        return S
    if k == "damp":
        p = spec["p"]
        K0 = np.eye(d, dtype=complex)
        for j in range(1, d):
            K0[j, j] = np.sqrt(1 - p)
        S = np.kron(K0, K0.conj())
        for j in range(1, d):
            K = np.zeros((d, d), dtype=complex)
            K[0, j] = np.sqrt(p)
            S += np.kron(K, K.conj())
        return S
    a = gens.to_c(spec["a"])
    if spec.get("shift"):
        a = np.eye(d) + a / 8.0
    if k == "left":
        return np.kron(a, I).astype(complex)
    if k == "right":
        return np.kron(I, a.T).astype(complex)
    b = gens.to_c(spec["b"])
    if spec.get("shift"):
        b = np.eye(d) + b / 8.0
    return np.kron(a, b.T).astype(complex)
