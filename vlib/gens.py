"""Shared Hypothesis strategies.  Every strategy yields plain JSON-able data
(ints, floats, strings, lists, dicts); `build_*` functions turn such a
description into numpy / oqupy objects inside the check.  Values sit on small
grids so that shrinking drives towards zeros and small integers."""
import math

import numpy as np
from hypothesis import strategies as st

# ---------------------------------------------------------------- numbers

def grid(lo, hi, den=4):
    """multiples of 1/den in [lo, hi]"""
    return st.integers(int(math.ceil(lo * den)), int(math.floor(hi * den))).map(lambda k: k / den)


def cnum(rng=2, den=4):
    return st.tuples(grid(-rng, rng, den), grid(-rng, rng, den)).map(list)


def cmatrix(rows, cols, rng=2, den=4):
    return st.lists(st.lists(cnum(rng, den), min_size=cols, max_size=cols),
                    min_size=rows, max_size=rows)


def rmatrix(rows, cols, rng=2, den=4):
    return st.lists(st.lists(grid(-rng, rng, den), min_size=cols, max_size=cols),
                    min_size=rows, max_size=rows)


def to_c(m):
    a = np.asarray(m, dtype=float)
    return a[..., 0] + 1j * a[..., 1]


def herm(m, scale=1.0):
    a = to_c(m)
    return scale * (a + a.conj().T) / 2.0


def herm_spec(d, rng=2, den=4):
    return cmatrix(d, d, rng, den)


# ---------------------------------------------------------------- unitaries

@st.composite
def unitary_spec(draw, d, allow_identity=True, depth=0):
    kinds = ["perm", "phases", "dft", "givens", "generic"]
    if allow_identity:
        kinds = ["identity"] + kinds
    if depth == 0:
        kinds = kinds + ["product"]
    kind = draw(st.sampled_from(kinds))
    if kind == "identity" or kind == "dft":
        return {"kind": kind}
    if kind == "perm":
        return {"kind": kind, "perm": draw(st.permutations(list(range(d))))}
    if kind == "phases":
        return {"kind": kind, "ph": draw(st.lists(st.integers(0, 7), min_size=d, max_size=d))}
    if kind == "givens":
        i = draw(st.integers(0, d - 2))
        j = draw(st.integers(i + 1, d - 1))
        return {"kind": kind, "i": i, "j": j, "th": draw(st.integers(1, 15)), "ph": draw(st.integers(0, 7))}
    if kind == "generic":
        return {"kind": kind, "h": draw(herm_spec(d, 2, 4))}
    a = draw(unitary_spec(d, allow_identity=False, depth=1))
    b = draw(unitary_spec(d, allow_identity=False, depth=1))
    return {"kind": "product", "a": a, "b": b}


def build_unitary(spec, d):
    from scipy.linalg import expm
    k = spec["kind"]
    if k == "identity":
        return np.eye(d, dtype=complex)
    if k == "perm":
        return np.eye(d, dtype=complex)[:, list(spec["perm"])]
    if k == "phases":
        return np.diag(np.exp(1j * math.pi / 4 * np.array(spec["ph"], dtype=float)))
    if k == "dft":
        n = np.arange(d)
        return np.exp(2j * math.pi * np.outer(n, n) / d) / math.sqrt(d)
    if k == "givens":
        u = np.eye(d, dtype=complex)
        th = spec["th"] * math.pi / 16
        ph = np.exp(1j * math.pi / 4 * spec["ph"])
        i, j = spec["i"], spec["j"]
        u[i, i] = math.cos(th)
        u[j, j] = math.cos(th)
        u[i, j] = -math.sin(th) * ph
        u[j, i] = math.sin(th) * np.conj(ph)
        return u
    if k == "generic":
        return expm(-1j * herm(spec["h"]))
    if k == "product":
        return build_unitary(spec["a"], d) @ build_unitary(spec["b"], d)
    raise ValueError(k)


def is_phase_permutation(u, tol=1e-9):
    a = np.abs(u)
    return bool(np.all((a < tol) | (np.abs(a - 1) < tol)))


# ---------------------------------------------------------------- states

@st.composite
def dm_spec(draw, d, max_rank=None):
    r = draw(st.integers(1, max_rank or d))
    return draw(cmatrix(d, r, 2, 4))


def build_dm(spec):
    a = to_c(spec)
    d = a.shape[0]
    rho = a @ a.conj().T
    tr = np.trace(rho).real
    if tr < 1e-12:                      # all-zero draw: fall back to |0><0|
        rho = np.zeros((d, d), dtype=complex)
        rho[0, 0] = 1.0
        tr = 1.0
    return rho / tr


# ---------------------------------------------------------------- spectral densities

CUTOFFS = ["hard", "exponential", "gaussian"]
TEMPS = [0.0, 0.0, 0.01, 0.03, 0.1, 0.3, 1.0, 3.0, 10.0, 50.0]
ZETAS = [0.5, 1.0, 1.0, 1.5, 2.0, 3.0, 4.0]


@st.composite
def powerlaw_spec(draw, alpha_max=2.0, temps=None, zetas=None, float_zeta=True):
    zs = st.sampled_from(zetas or ZETAS)
    if float_zeta and zetas is None:
        zs = st.one_of(zs, st.integers(3, 40).map(lambda k: k / 10.0))
    return {
        "type": "powerlaw",
        "alpha": draw(st.integers(1, int(alpha_max * 20)).map(lambda k: k / 20.0)),
        "zeta": draw(zs),
        "wc": draw(st.sampled_from([0.5, 1.0, 2.0, 3.0, 5.0, 10.0])),
        "cutoff_type": draw(st.sampled_from(CUTOFFS)),
        "T": draw(st.sampled_from(temps or TEMPS)),
    }


@st.composite
def custom_spec(draw, temps=None):
    nterms = draw(st.integers(1, 2))
    terms = [[draw(st.integers(1, 8).map(lambda k: k / 8.0)),
              draw(st.sampled_from([1.0, 1.5, 2.0, 3.0]))] for _ in range(nterms)]
    bump = None
    if draw(st.booleans()):
        bump = [draw(st.integers(1, 8).map(lambda k: k / 8.0)),
                draw(st.sampled_from([0.5, 1.0, 2.0])),
                draw(st.sampled_from([0.25, 0.5, 1.0]))]
    return {
        "type": "custom", "terms": terms, "bump": bump,
        "wc": draw(st.sampled_from([0.5, 1.0, 2.0, 3.0, 5.0])),
        "cutoff_type": draw(st.sampled_from(CUTOFFS)),
        "T": draw(st.sampled_from(temps or TEMPS)),
    }


def sd_spec(custom_weight=0.2, **kw):
    if custom_weight <= 0:
        return powerlaw_spec(**kw)
    return st.one_of(powerlaw_spec(**kw), powerlaw_spec(**kw), powerlaw_spec(**kw),
                     custom_spec(temps=kw.get("temps")))


def scaled_spec(spec, factor):
    """the same spectral density multiplied by `factor`"""
    s = dict(spec)
    if s["type"] == "powerlaw":
        s["alpha"] = s["alpha"] * factor
    else:
        s["terms"] = [[c * factor, p] for c, p in s["terms"]]
        if s.get("bump"):
            s["bump"] = [s["bump"][0] * factor] + list(s["bump"][1:])
    return s


def build_corr(spec):
    import oqupy
    from vlib.refs import corr as R
    if spec["type"] == "powerlaw":
        return oqupy.PowerLawSD(alpha=spec["alpha"], zeta=spec["zeta"], cutoff=spec["wc"],
                                cutoff_type=spec["cutoff_type"], temperature=spec["T"])
    return oqupy.CustomSD(R.j_callable(spec), cutoff=spec["wc"],
                          cutoff_type=spec["cutoff_type"], temperature=spec["T"])


def guard_crossed(spec):
    """does the integration range reach past the overflow guard exp(-w/T) < eps?"""
    T = spec["T"]
    if T <= 0:
        return False
    from vlib.refs.corr import upper_bound
    return upper_bound(spec) > 36.04 * T


# ---------------------------------------------------------------- TEMPO parameters

MAX_M = {2: 7, 3: 4, 4: 3, 5: 2}      # size coupling m = min(N, dkmax+1)


@st.composite
def tempo_shape(draw, d, tier="quick", n_min=1, n_max=None, allow_none=True, min_dkmax=1, long_runs=False):
    """(N, dkmax, add_correlation_time) respecting the size coupling of DESIGN section 4"""
    # the size coupling is the same in both tiers (one more memory step costs 30..280 s per case, DESIGN section 4);
    # the thorough tier differs by its budgets and by longer runs at short memory
    mmax = MAX_M[d]
    n_cap = n_max or (8 if tier == "quick" else 12)
    if long_runs and n_max is None and d <= 3 and draw(st.integers(0, 9)) == 0:
        # long runs at short memory (N >> dkmax): cheap, and the only place where a small per-step error can accumulate
        N = draw(st.integers(20, 40))
        K = draw(st.integers(max(1, min_dkmax), 2))
        tau = draw(st.sampled_from([None, None, 0.0, "dt/2", "1.5dt", "3dt", "inf"]))
        return N, K, tau
    N = draw(st.integers(n_min, n_cap))
    choices = []
    if allow_none and N <= mmax:
        choices.append(None)
    kmax = min(mmax - 1, N + 3)
    ks = [k for k in range(min_dkmax, kmax + 1)]
    # beyond-N values of dkmax (no cut-off in force) only allowed when N itself is small
    ks = [k for k in ks if min(N, k + 1) <= mmax]
    choices += ks
    if not choices:
        N = min(N, mmax)
        choices = [None] if allow_none else [max(min_dkmax, 1)]
    K = draw(st.sampled_from(choices))
    tau = None
    if K is not None:
        tau = draw(st.sampled_from([None, None, 0.0, "dt/2", "1.5dt", "3dt", "inf"]))
    return N, K, tau


def tau_value(tau, dt):
    if tau is None:
        return None
    if tau == "inf":
        return float("inf")
    if tau == "dt/2":
        return 0.5 * dt
    if tau == "1.5dt":
        return 1.5 * dt
    if tau == "3dt":
        return 3.0 * dt
    return float(tau)


DTS = [0.02, 0.05, 0.1, 0.125, 0.2, 0.3, 0.5]
EPSRELS = [1e-7, 1e-8, 1e-9]


def conditioning_D(spec, o_spread, dt, N, K, tau):
    """D = (max|o_i-o_j|)^2 * sum over the cells of one influence column of |Re eta|
    computed from the reference quadrature (never from the library)."""
    from vlib.refs import corr as R
    M = N if K is None else min(N, K)
    tot = 0.0
    for k in range(M + 1):
        tot += abs(R.cell(spec, dt, k).real)
    if tau is not None and K is not None and N > K:
        L = min((N - K) * dt, dt + tau)
        tot += abs(R.rect(spec, K * dt, K * dt + L, dt).real)
    return o_spread ** 2 * tot
