"""Harness-owned schedules.

PermutingExecutors: a drop-in for the `concurrent` module name inside
oqupy.backends.pt_tebd_backend whose executors run the submitted gate
applications in a prescribed completion order (per call of map / per batch of
submit) while honouring the interface contracts (map returns results in input
order; as_completed yields in completion order)."""
import types


class _Future:
    def __init__(self, fn, args, kwargs):
        self._fn, self._args, self._kwargs = fn, args, kwargs
        self._done = False
        self._result = None
        self._exc = None
        self.completion_index = None

    def _run(self, idx):
        if not self._done:
            try:
                self._result = self._fn(*self._args, **self._kwargs)
            except BaseException as exc:  # delivered on result()
                self._exc = exc
            self._done = True
            self.completion_index = idx

    def result(self, timeout=None):
        if not self._done:
            self._owner._complete_all()
        if self._exc is not None:
            raise self._exc
        return self._result

    def done(self):
        return self._done


class PermutingExecutors:
    """orders: list of permutations (lists of ints), consumed one per batch; batches beyond the list run in
    natural order.  log records (batch index, size, order used)."""

    def __init__(self, orders):
        self.orders = list(orders)
        self.batch = 0
        self.log = []
        outer = self

        class Executor:
            def __init__(self, *a, **k):
                self._pending = []

            def __enter__(self):
                return self

            def __exit__(self, *exc):
                self._complete_all()
                return False

            def _order_for(self, n):
                if outer.batch < len(outer.orders):
                    o = [i for i in outer.orders[outer.batch] if i < n]
                    o += [i for i in range(n) if i not in o]
                else:
                    o = list(range(n))
                outer.log.append((outer.batch, n, list(o)))
                outer.batch += 1
                return o

            def map(self, fn, *iterables, **kw):
                items = list(zip(*iterables))
                futs = [_Future(fn, it, {}) for it in items]
                for f in futs:
                    f._owner = self
                order = self._order_for(len(futs))
                for c, i in enumerate(order):
                    futs[i]._run(c)
                return iter([f.result() for f in futs])

            def submit(self, fn, *args, **kwargs):
                f = _Future(fn, args, kwargs)
                f._owner = self
                self._pending.append(f)
                return f

            def _complete_all(self):
                pend = [f for f in self._pending if not f.done()]
                if not pend:
                    return
                order = self._order_for(len(pend))
                for c, i in enumerate(order):
                    pend[i]._run(c)
                self._pending = []

            def shutdown(self, wait=True, **kw):
                self._complete_all()

        def as_completed(fs, timeout=None):
            fs = list(fs)
            owners = []
            for f in fs:
                if f._owner not in owners:
                    owners.append(f._owner)
            for o in owners:
                o._complete_all()
            return iter(sorted(fs, key=lambda f: f.completion_index))

        def wait(fs, timeout=None, return_when=None):
            fs = list(fs)
            for f in fs:
                f._owner._complete_all()
            return set(fs), set()

        futures = types.SimpleNamespace(ThreadPoolExecutor=Executor, ProcessPoolExecutor=Executor,
                                        as_completed=as_completed, wait=wait, Future=_Future,
                                        ALL_COMPLETED="ALL_COMPLETED", FIRST_COMPLETED="FIRST_COMPLETED")
        self.module = types.SimpleNamespace(futures=futures)


# ======================================================================
# C19: fake timer + cooperative line-level scheduler for ProgressBar
# ======================================================================
import sys as _sys
import threading as _threading
import time as _time


class FakeTimer:
    """stand-in for threading.Timer owned by the harness: never fires by itself"""
    created = []

    def __init__(self, interval, function, args=None, kwargs=None):
        self.interval = interval
        self.function = function
        self.started = False
        self.cancelled = False
        self.fired = False
        self.daemon = False
        FakeTimer.created.append(self)

    def start(self):
        self.started = True

    def cancel(self):
        self.cancelled = True

    def is_alive(self):
        return self.live()

    def join(self, timeout=None):
        return None

    def live(self):
        return self.started and not self.cancelled and not self.fired

    def fire(self):
        """run the callback as the timer thread would (in the calling thread)"""
        self.fired = True
        return self.function()

    @classmethod
    def reset(cls):
        cls.created = []

    @classmethod
    def live_timers(cls):
        return [t for t in cls.created if t.live()]


class Scheduler:
    """runs named threads, stopping each before every line of the target code objects; the controller picks which
    thread may execute its next line.  A thread that does not reach its next stop within `grace` seconds is presumed
    blocked (on a lock held by a paused thread) and is left alone until it shows up again."""

    def __init__(self, targets, schedule, grace=0.03, hard_timeout=20.0):
        self.targets = set(targets)
        self.schedule = list(schedule)
        self.cv = _threading.Condition()
        self.turn = None
        self.waiting = {}
        self.done = set()
        self.trace = []
        self.grace = grace
        self.hard_timeout = hard_timeout
        self.errors = {}

    def _tracer(self, name):
        def local(frame, event, arg):
            if event == "line" and frame.f_code in self.targets:
                self._yield(name, frame.f_lineno)
            return local

        def glob(frame, event, arg):
            if frame.f_code in self.targets:
                return local
            return None
        return glob

    def _yield(self, name, line):
        with self.cv:
            self.waiting[name] = line
            self.cv.notify_all()
            t0 = _time.time()
            while self.turn != name:
                self.cv.wait(timeout=0.5)
                if _time.time() - t0 > self.hard_timeout:
                    raise RuntimeError("scheduler hard timeout in thread " + name)
            self.turn = None
            del self.waiting[name]
            self.trace.append((name, line))
            self.cv.notify_all()

    def spawn(self, name, fn):
        def body():
            _sys.settrace(self._tracer(name))
            try:
                fn()
            except BaseException as exc:   # recorded, judged by the caller
                self.errors[name] = exc
            finally:
                _sys.settrace(None)
                with self.cv:
                    self.done.add(name)
                    self.cv.notify_all()
        t = _threading.Thread(target=body, name="sched-" + name, daemon=True)
        t.start()
        return t

    def drive(self, names):
        """returns the list of (runnable names, picked name) decisions"""
        choices = []
        t_start = _time.time()
        while True:
            with self.cv:
                # wait until every live thread is at a stop, or presumed blocked
                t0 = _time.time()
                while True:
                    pending = [n for n in names if n not in self.waiting and n not in self.done]
                    if not pending:
                        break
                    if self.waiting and _time.time() - t0 > self.grace:
                        break          # the others are presumed blocked on a lock
                    self.cv.wait(timeout=self.grace / 3)
                    if _time.time() - t_start > self.hard_timeout:
                        raise RuntimeError("scheduler hard timeout (controller)")
                runnable = sorted(self.waiting)
                if not runnable:
                    if all(n in self.done for n in names):
                        break
                    if _time.time() - t_start > self.hard_timeout:
                        raise RuntimeError("scheduler hard timeout: threads neither waiting nor done")
                    continue
                if self.schedule:
                    pick = self.schedule.pop(0)
                    if pick not in runnable:
                        pick = runnable[0]
                else:
                    pick = runnable[0]
                choices.append((tuple(runnable), pick))
                self.turn = pick
                self.cv.notify_all()
                while self.turn is not None:
                    self.cv.wait(timeout=0.5)
                    if _time.time() - t_start > self.hard_timeout:
                        raise RuntimeError("scheduler hard timeout waiting for a step")
        return choices


def explore(scenario, max_schedules=2000):
    """stateless DFS over schedules. scenario(prefix) -> (choices, verdict). Returns list of (schedule, verdict)."""
    results = []
    stack = [[]]
    seen = set()
    while stack and len(results) < max_schedules:
        pref = stack.pop()
        choices, verdict = scenario(pref)
        key = tuple(p for _, p in choices)
        results.append((list(key), verdict))
        for i in range(len(pref), len(choices)):
            runnable, pick = choices[i]
            for alt in runnable:
                if alt != pick:
                    newp = tuple([p for _, p in choices[:i]] + [alt])
                    if newp not in seen:
                        seen.add(newp)
                        stack.append(list(newp))
    return results, not stack
