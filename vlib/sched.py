"""Harness-owned schedules.

PermutingExecutors: a drop-in for the `concurrent` module name inside
oqupy.backends.pt_tebd_backend whose executors run the submitted gate
applications in a prescribed completion order (per call of map / per batch of
submit) while honouring the interface contracts (map returns results in input
order; as_completed yields in completion order)."""
import types


class _Future:
    def __init__(self, fn, args, kwargs):
        self._fn, self._args, self._kwargs = fn, args, kwargs
        self._done = False
        self._result = None
        self._exc = None
        self.completion_index = None

    def _run(self, idx):
        if not self._done:
            try:
                self._result = self._fn(*self._args, **self._kwargs)
            except BaseException as exc:  # delivered on result()
                self._exc = exc
            self._done = True
            self.completion_index = idx

    def result(self, timeout=None):
        if not self._done:
            self._owner._complete_all()
        if self._exc is not None:
            raise self._exc
        return self._result

    def done(self):
        return self._done


class PermutingExecutors:
    """orders: list of permutations (lists of ints), consumed one per batch; batches beyond the list run in
    natural order.  log records (batch index, size, order used)."""

    def __init__(self, orders):
        self.orders = list(orders)
        self.batch = 0
        self.log = []
        outer = self

        class Executor:
            def __init__(self, *a, **k):
                self._pending = []

            def __enter__(self):
                return self

            def __exit__(self, *exc):
                self._complete_all()
                return False

            def _order_for(self, n):
                if outer.batch < len(outer.orders):
                    o = [i for i in outer.orders[outer.batch] if i < n]
                    o += [i for i in range(n) if i not in o]
                else:
                    o = list(range(n))
                outer.log.append((outer.batch, n, list(o)))
                outer.batch += 1
                return o

            def map(self, fn, *iterables, **kw):
                items = list(zip(*iterables))
                futs = [_Future(fn, it, {}) for it in items]
                for f in futs:
                    f._owner = self
                order = self._order_for(len(futs))
                for c, i in enumerate(order):
                    futs[i]._run(c)
                return iter([f.result() for f in futs])

            def submit(self, fn, *args, **kwargs):
                f = _Future(fn, args, kwargs)
                f._owner = self
                self._pending.append(f)
                return f

            def _complete_all(self):
                pend = [f for f in self._pending if not f.done()]
                if not pend:
                    return
                order = self._order_for(len(pend))
                for c, i in enumerate(order):
                    pend[i]._run(c)
                self._pending = []

            def shutdown(self, wait=True, **kw):
                self._complete_all()

        def as_completed(fs, timeout=None):
            fs = list(fs)
            owners = []
            for f in fs:
                if f._owner not in owners:
                    owners.append(f._owner)
            for o in owners:
                o._complete_all()
            return iter(sorted(fs, key=lambda f: f.completion_index))

        def wait(fs, timeout=None, return_when=None):
            fs = list(fs)
            for f in fs:
                f._owner._complete_all()
            return set(fs), set()

        futures = types.SimpleNamespace(ThreadPoolExecutor=Executor, ProcessPoolExecutor=Executor,
                                        as_completed=as_completed, wait=wait, Future=_Future,
                                        ALL_COMPLETED="ALL_COMPLETED", FIRST_COMPLETED="FIRST_COMPLETED")
        self.module = types.SimpleNamespace(futures=futures)
