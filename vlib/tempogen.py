"""Generated TEMPO / PT-TEMPO problems (JSON-able) and their builders.

Conditioning (DESIGN section 4): the coupling strength of every generated
bath is scaled *by construction* so that D = spread(o)^2 * sum |Re eta_cell|
over one influence column stays <= D_MAX; sizes are coupled to the dimension
(gens.MAX_M)."""
import numpy as np
from hypothesis import strategies as st

from vlib import gens
from vlib.refs import corr as R

# 3.5, not 5: the loss of accuracy of the truncated networks sets in abruptly (observed, same configuration:
# TEMPO vs PT-TEMPO deviation / ((N+1) eps) = 1.4 at D=3, 39 at D=4, 1e4 at D=5), see DESIGN 10.7 / finding F-04
D_MAX = 3.5
O_POOL = [-1.0, -0.5, 0.0, 0.5, 1.0, 1.5, 2.0]


@st.composite
def eigenvalues(draw, d, pool_weight=0.6, distinct=False):
    if distinct:
        idx = draw(st.lists(st.integers(-8, 8), min_size=d, max_size=d, unique=True))
        return [i / 4.0 for i in idx]
    if draw(st.floats(0, 1)) < pool_weight:
        ev = [draw(st.sampled_from(O_POOL)) for _ in range(d)]
    else:
        ev = [draw(gens.grid(-2, 2, 8)) for _ in range(d)]
    return ev


@st.composite
def bath_spec(draw, d, rotated=None, distinct_if_rotated=True, temps=None, custom_weight=0.2,
              zetas=None):
    rot = draw(st.booleans()) if rotated is None else rotated
    ev = draw(eigenvalues(d, distinct=rot and distinct_if_rotated))
    if max(ev) - min(ev) == 0:
        ev = list(ev)
        ev[0] = ev[0] + 1.0
    spec = {"o": ev, "V": draw(gens.unitary_spec(d, allow_identity=False)) if rot else {"kind": "identity"},
            "sd": draw(gens.sd_spec(custom_weight=custom_weight, temps=temps, zetas=zetas) if custom_weight > 0
                       else gens.powerlaw_spec(temps=temps, zetas=zetas))}
    return spec


@st.composite
def params_spec(draw, d, tier="quick", n_min=1, n_max=None, min_dkmax=1, eps=None, allow_none=True, long_runs=False):
    N, K, tau = draw(gens.tempo_shape(d, tier, n_min=n_min, n_max=n_max, min_dkmax=min_dkmax,
                                      allow_none=allow_none, long_runs=long_runs))
    return {"N": N, "K": K, "tau": tau,
            "dt": draw(st.sampled_from(gens.DTS)),
            "eps": draw(st.sampled_from(eps or gens.EPSRELS)),
            "tcut_spelling": draw(st.booleans()),
            # tcut need not be a multiple of dt: the documented memory length is round(tcut/dt) (fractions of +-0.3 steps
            # are unambiguous)
            "tcut_frac": draw(st.sampled_from([0.0, 0.0, -0.3, 0.3]))}


def coupling_operator(bspec, d):
    V = gens.build_unitary(bspec["V"], d)
    O = V @ np.diag(np.array(bspec["o"], dtype=float)) @ V.conj().T
    O = (O + O.conj().T) / 2.0
    return O, V


def conditioned_sd(bspec, pspec, d_max=D_MAX):
    """spectral density spec with the coupling scaled so that D <= d_max;
    returns (spec, D, scale_factor)"""
    sd = bspec["sd"]
    o = np.array(bspec["o"], dtype=float)
    spread = float(o.max() - o.min())
    tau = gens.tau_value(pspec["tau"], pspec["dt"])
    D = gens.conditioning_D(sd, spread, pspec["dt"], pspec["N"], pspec["K"], tau)
    f = 1.0
    if D > d_max:
        f = d_max / D
    return gens.scaled_spec(sd, f), D * f, f


def build_bath(bspec, pspec, d, d_max=D_MAX):
    import oqupy
    sd, D, f = conditioned_sd(bspec, pspec, d_max)
    O, V = coupling_operator(bspec, d)
    if bspec["V"]["kind"] == "identity":
        O = np.diag(np.array(bspec["o"], dtype=float)).astype(complex)
    return oqupy.Bath(O, gens.build_corr(sd)), sd, D, O, V


def build_params(pspec, **kw):
    import oqupy
    dt = pspec["dt"]
    K = pspec["K"]
    tau = gens.tau_value(pspec["tau"], dt)
    args = dict(dt=dt, epsrel=pspec["eps"], add_correlation_time=tau)
    if K is not None and pspec.get("tcut_spelling"):
        args["tcut"] = (K + (pspec.get("tcut_frac", 0.0) if K >= 1 else 0.0)) * dt          # documented alternative spelling of dkmax
    else:
        args["dkmax"] = K
    args.update(kw)
    par = oqupy.TempoParameters(**args)
    if K is not None and par.dkmax != K:
        from vlib.runner import HarnessError
        raise HarnessError(f"tcut={args.get('tcut')!r} with dt={dt!r} parsed as dkmax={par.dkmax}, generator intended {K}")
    return par


def end_time(pspec, start=0.0):
    """an end time safely inside step N (avoids the C13 rounding question)"""
    return start + (pspec["N"] + 0.5) * pspec["dt"]


def trunc_tol(pspec, c_T=1000.0, floor=1e-7, scale=1.0):
    return (c_T * (pspec["N"] + 1) * pspec["eps"] + floor) * scale


def cutoff_active(pspec):
    return pspec["K"] is not None and pspec["N"] > pspec["K"]
