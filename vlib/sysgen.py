"""System descriptions (JSON-able), their oqupy objects and an independent
reference for the half-step propagators."""
import math

import numpy as np
from hypothesis import strategies as st
from scipy import integrate
from scipy.linalg import expm

from vlib import gens
from vlib.refs.anc import lindblad_liouvillian


@st.composite
def sys_spec(draw, d, allow_td=True, allow_lind=True, force_td=False, h_rng=2):
    td = force_td or (allow_td and draw(st.booleans()))
    nl = draw(st.integers(0, 2)) if allow_lind else 0
    lind = []
    for _ in range(nl):
        lind.append({
            "g0": draw(st.integers(1, 8).map(lambda k: k / 8.0)),
            "g1": draw(st.integers(0, 4).map(lambda k: k / 8.0)) if td else 0.0,
            "A0": draw(gens.cmatrix(d, d, 1, 2)),
            "A1": draw(gens.cmatrix(d, d, 1, 2)) if td and draw(st.booleans()) else None,
        })
    spec = {"kind": "td" if td else "const", "H0": draw(gens.herm_spec(d, h_rng, 4)), "lind": lind}
    if td:
        spec["H1"] = draw(gens.herm_spec(d, h_rng, 4))
        spec["H2"] = draw(gens.herm_spec(d, 1, 4))
        spec["nu"] = draw(st.sampled_from([0.5, 1.0, 2.0, 3.0, 5.0]))
        spec["integ"] = draw(st.booleans())
    return spec


def _H(spec, t):
    H = gens.herm(spec["H0"])
    if spec["kind"] == "td":
        H = H + math.cos(spec["nu"] * t) * gens.herm(spec["H1"]) + t * gens.herm(spec["H2"])
    return H


def _gamma(l, t):
    return l["g0"] + l["g1"] * t * t / (1.0 + t * t)


def _A(l, t):
    A = gens.to_c(l["A0"])
    if l.get("A1") is not None:
        A = A + math.sin(t) * gens.to_c(l["A1"])
    return A


def is_time_dependent(spec):
    return spec["kind"] == "td"


def build_system(spec, shift=0.0, wrap=None, rot=None):
    """oqupy System / TimeDependentSystem; callables use (t - shift).
    wrap(fn, kind) optionally wraps every user callable (fault injection).
    rot: unitary V; every operator X is replaced by V X V^dagger."""
    import oqupy
    if rot is None:
        R = lambda X: X
    else:
        Vd = rot.conj().T
        R = lambda X: rot @ X @ Vd
    if spec["kind"] == "const":
        return oqupy.System(R(_H(spec, 0.0)),
                            gammas=[l["g0"] for l in spec["lind"]],
                            lindblad_operators=[R(_A(l, 0.0)) for l in spec["lind"]])
    w = wrap or (lambda f, kind: f)
    ham = w(lambda t: R(_H(spec, t - shift)), "hamiltonian")
    gs = [w((lambda t, l=l: _gamma(l, t - shift)), "gamma") for l in spec["lind"]]
    As = [w((lambda t, l=l: R(_A(l, t - shift))), "lindblad") for l in spec["lind"]]
    return oqupy.TimeDependentSystem(ham, gammas=gs, lindblad_operators=As)


def subdiv_limit(spec):
    """value of the subdiv_limit argument matching the spec"""
    if spec["kind"] == "td" and not spec.get("integ", False):
        return None
    return 256


def ref_liouvillian(spec, t):
    return lindblad_liouvillian(_H(spec, t), [_gamma(l, t) for l in spec["lind"]],
                                [_A(l, t) for l in spec["lind"]])


def ref_props(spec, dt, start_time=0.0, shift=0.0):
    """independent half-step propagators (P1, P2) for step k"""
    if spec["kind"] == "const":
        P = expm(ref_liouvillian(spec, 0.0) * dt / 2.0)
        return lambda k: (P, P)
    cache = {}

    def props(k):
        if k in cache:
            return cache[k]
        t = start_time + k * dt
        if not spec.get("integ", False):
            P1 = expm(ref_liouvillian(spec, t + dt / 4.0 - shift) * dt / 2.0)
            P2 = expm(ref_liouvillian(spec, t + 3.0 * dt / 4.0 - shift) * dt / 2.0)
        else:
            f = lambda s: ref_liouvillian(spec, s - shift)
            I1 = integrate.quad_vec(f, t, t + dt / 2.0, epsrel=1e-12, epsabs=1e-14)[0]
            I2 = integrate.quad_vec(f, t + dt / 2.0, t + dt, epsrel=1e-12, epsabs=1e-14)[0]
            P1, P2 = expm(I1), expm(I2)
        cache[k] = (P1, P2)
        return cache[k]
    return props


def comm_norm(A, B):
    return float(np.abs(A @ B - B @ A).max())
