"""C01 - TEMPO and PT-TEMPO reproduce exactly solvable open-system models."""
import numpy as np
from hypothesis import strategies as st

from vlib import gens, tempogen
from vlib.refs import corr as R
from vlib.refs import ibm
from vlib.refs.anc import lindblad_liouvillian
from vlib.runner import Outcome, Sub

ID = "C01"
LEVEL = "exploration"
RULE = ("(A) Hypothesis-generated independent-boson models: commuting pair H=V diag(E) V^+, O=V diag(o) V^+ (d=2..4, V "
        "identity/structured/generic), optional commuting dephasing Lindblad terms, initial density matrices of any rank, "
        "spectral densities (power law all cut-offs, custom j-functions, T=0..50 across the overflow guard), dt, N, "
        "dkmax/tcut on both sides of N, add_correlation_time in {None,0,finite,inf}, epsrel, unique, both methods; oracle: "
        "closed form with eta_n summed over the cells included by the documented memory setting, eta from an independent "
        "quadrature, compared at every step. (B) finite-mode baths given through CustomCorrelations with a non-commuting "
        "system: oracle = explicit system+oscillators evolution (two Fock cut-offs; inconclusive if they differ). "
        "Non-trivial (A): alpha>0 and some o_i != o_j with rho_ij(0) != 0; (B): ||[H,O]|| > 0.1. Distinct = distinct canonical JSON.")
TECHNIQUE = "Hypothesis property-based testing against closed-form / explicit-simulation reference models"
LEVEL_TEXT = ("Generated exactly solvable models are compared at every time step with an analytic solution whose memory "
              "kernel integrals come from an independent quadrature, and with an explicit system+modes simulation. "
              "Exploration over the stated parameter ranges at small sizes; conditioned inputs (D<=3.5).")
LEVEL_NOTE = ("Tolerance = c_T (N+1) epsrel + 1e-7 (c_T=100 TEMPO, 1000 PT-TEMPO) + quadrature term "
              "10 n_cells (1.49e-8 + epsrel |eta|) |o|^2 (+5e-4 |eta| for sub-ohmic T>0). Trusts vlib/refs/corr.py, ibm.py.")
ASSUMPTIONS = [
    "documented memory semantics R-mem: cell (k,k') kept iff k-k' <= dkmax, the k-k' = dkmax cell replaced by the rectangle of extent min((k+1-K)dt, dt+tau) when add_correlation_time=tau",
    "TEMPO inputs are conditioned (D <= 3.5) and size-coupled as in DESIGN section 4",
]


@st.composite
def s_ibm(draw, tier):
    d = draw(st.integers(2, 4))
    b = draw(tempogen.bath_spec(d))
    ndeph = draw(st.integers(0, 1))
    deph = [{"g": draw(st.sampled_from([0.1, 0.5, 1.0])),
             "a": [draw(gens.cnum(1, 2)) for _ in range(d)]} for _ in range(ndeph)]
    p = draw(tempogen.params_spec(d, tier, long_runs=True))
    return {"d": d, "bath": b, "E": [draw(gens.grid(-2, 2, 4)) for _ in range(d)], "deph": deph,
            "rho0": draw(gens.dm_spec(d)), "par": p, "unique": draw(st.booleans()),
            "t0": draw(st.sampled_from([0.0, 0.0, 1.5]))}


def run_ibm(case):
    import oqupy
    out = Outcome()
    d, b, p = case["d"], case["bath"], case["par"]
    bath, sd, D, O, V = tempogen.build_bath(b, p, d)
    Vd = V.conj().T
    o = np.array(b["o"], dtype=float)
    E = np.array(case["E"], dtype=float)
    rho_e = gens.build_dm(case["rho0"])
    rho0 = V @ rho_e @ Vd
    H = V @ np.diag(E) @ Vd
    H = (H + H.conj().T) / 2
    gam = [x["g"] for x in case["deph"]]
    As = [V @ np.diag(gens.to_c(x["a"])) @ Vd for x in case["deph"]]
    system = oqupy.System(H, gammas=gam, lindblad_operators=As)
    par = tempogen.build_params(p)
    t0 = case["t0"]
    t_end = tempogen.end_time(p, t0)
    N, dt, K = p["N"], p["dt"], p["K"]
    tau = gens.tau_value(p["tau"], dt)
    etas, ncalls, escale = ibm.eta_sequence(sd, dt, N, K, tau)
    ref_e = ibm.states(E, o, rho_e, etas, dt, [(g, gens.to_c(x["a"])) for g, x in zip(gam, case["deph"])])
    ref = np.einsum("ab,tbc,cd->tad", V, ref_e, Vd)
    spread = float(o.max() - o.min())
    omax = float(np.abs(o).max())
    coh = max(abs(rho_e[i, j]) for i in range(d) for j in range(d) if o[i] != o[j]) if spread > 0 else 0.0
    alpha_pos = D > 0
    out.nontrivial = bool(alpha_pos and coh > 1e-6)
    T = sd["T"]
    out.label("cutoff-active" if tempogen.cutoff_active(p) else "full-memory",
              "tau=" + str(p["tau"]), "T=0" if T == 0 else "T>0", "cutoff=" + sd["cutoff_type"], sd["type"],
              "rotated" if b["V"]["kind"] != "identity" else "diagonal",
              "unique" if case["unique"] else "not-unique", f"d={d}",
              "D<0.5" if D < 0.5 else ("D<2" if D < 2 else "D<=3.5"))
    if gens.guard_crossed(sd):
        out.label("guard-crossed")
    if case["deph"]:
        out.label("dephasing-lindblad")
    # quadrature part of the tolerance: the library is asked for epsrel = TEMPO epsrel
    nsum = (N * (N + 1)) // 2
    qterm = 10.0 * nsum * (4 * 1.49e-8 + p["eps"] * 4 * max(escale, abs(R.eta(sd, (min(N, (K or N)) + 1) * dt)))) \
        * spread * max(spread, 2 * omax)
    if R.lowest_power(sd) < 1 and T > 0:
        qterm += 5e-4 * abs(etas[-1]) * spread * max(spread, 2 * omax)
    dyn = oqupy.Tempo(system, bath, par, rho0, t0, unique=case["unique"]).compute(t_end, progress_type="silent")
    # with a cut-off the truncated-memory closed form can grow (non-contractive cut-off dynamics): relative comparison
    mag = max(1.0, float(np.abs(ref).max()))
    if mag > 3.0:
        out.label("cutoff-dynamics-grows")
    if mag > 1e6:
        out.inconclusive = True
        return out
    out.check_close("tempo", np.array(dyn.states), ref, (tempogen.trunc_tol(p, 100.0) + qterm) * mag, "TEMPO vs closed form")
    out.check_close("tempo/times", np.array(dyn.times), t0 + dt * np.arange(N + 1), 1e-12 * (abs(t0) + N * dt + 1))
    if N >= 2:
        pt = oqupy.pt_tempo_compute(bath, t0, t_end, par, unique=case["unique"], progress_type="silent")
        dyn2 = oqupy.compute_dynamics(system, rho0, process_tensor=pt, start_time=t0, progress_type="silent")
        out.check_close("pt-tempo", np.array(dyn2.states), ref, (tempogen.trunc_tol(p, 1000.0) + qterm) * mag,
                        "PT-TEMPO vs closed form")
    return out


@st.composite
def s_modes(draw, tier):
    d = draw(st.integers(2, 3))
    nm = draw(st.integers(1, 2 if tier == "quick" else 3))
    modes = []
    for _ in range(nm):
        w = draw(st.sampled_from([0.7, 1.3, 2.1, 3.4]))
        modes.append([w, w * draw(st.sampled_from([0.1, 0.25, 0.4]))])
    wmin = min(w for w, g in modes)
    T = draw(st.sampled_from([0.0, 0.3, 0.7])) * wmin
    return {"d": d, "modes": modes, "T": T,
            "o": draw(tempogen.eigenvalues(d, distinct=True)), "V": draw(gens.unitary_spec(d)),
            "H": draw(gens.herm_spec(d, 2, 4)),
            "lind": [{"g": draw(st.sampled_from([0.1, 0.4])), "A": draw(gens.cmatrix(d, d, 1, 2))}
                     for _ in range(draw(st.integers(0, 2)))],
            "rho0": draw(gens.dm_spec(d)), "N": draw(st.integers(2, 5)),
            "dt": draw(st.sampled_from([0.05, 0.1, 0.15])), "eps": draw(st.sampled_from([1e-9, 1e-10])),
            "method": draw(st.sampled_from(["tempo", "pt-tempo"]))}


def run_modes(case):
    import oqupy
    out = Outcome()
    d, modes, T, N, dt = case["d"], [tuple(m) for m in case["modes"]], case["T"], case["N"], case["dt"]
    o = np.array(case["o"], dtype=float)
    o = o / max(1.0, np.abs(o).max())           # keep the displacement (and Fock cut-off) small
    V = gens.build_unitary(case["V"], d)
    O = V @ np.diag(o) @ V.conj().T
    O = (O + O.conj().T) / 2
    off = np.abs(O - np.diag(np.diag(O))).max()
    if 0 < off < 1e-3:
        out.label("near-diagonal-skipped")
        return out
    if off == 0:
        O = np.diag(np.diag(O).real).astype(complex)
    H = gens.herm(case["H"])
    gam = [l["g"] for l in case["lind"]]
    As = [gens.to_c(l["A"]) for l in case["lind"]]
    rho0 = gens.build_dm(case["rho0"])
    comm = float(np.abs(H @ O - O @ H).max())
    out.nontrivial = comm > 0.1
    out.label(f"modes={len(modes)}", "T=0" if T == 0 else "T>0", "lindblad" if gam else "no-lindblad", case["method"])
    L = lindblad_liouvillian(H, gam, As)
    nb = max([0.0] + [1.0 / np.expm1(w / T) for w, g in modes]) if T > 0 else 0.0
    nmax = {1: 14, 2: 8, 3: 5}[len(modes)] + int(2 * nb)
    r1 = ibm.modes_dynamics(d, O, L, rho0, modes, T, nmax, N, dt)
    r2 = ibm.modes_dynamics(d, O, L, rho0, modes, T, nmax + (4 if len(modes) < 3 else 2), N, dt)
    tol = 1000.0 * (N + 1) * case["eps"] + 1e-7
    trunc = float(np.abs(r1 - r2).max())
    out.metric("fock-truncation/tol", trunc / tol)
    if trunc > tol / 10:
        out.inconclusive = True
        out.label("inconclusive-fock-truncation")
        return out
    corr = oqupy.CustomCorrelations(lambda t: R.modes_correlation(modes, T, t))
    bath = oqupy.Bath(O, corr)
    system = oqupy.System(H, gammas=gam, lindblad_operators=As)
    par = oqupy.TempoParameters(dt=dt, epsrel=case["eps"])
    t_end = (N + 0.5) * dt
    if case["method"] == "tempo":
        st_ = np.array(oqupy.Tempo(system, bath, par, rho0, 0.0).compute(t_end, progress_type="silent").states)
    else:
        pt = oqupy.pt_tempo_compute(bath, 0.0, t_end, par, progress_type="silent")
        st_ = np.array(oqupy.compute_dynamics(system, rho0, process_tensor=pt, progress_type="silent").states)
    # CustomCorrelations integrates C with dblquad at the requested epsrel: absolute error ~1e-8 per cell
    ospr = float(o.max() - o.min())
    qterm = 10.0 * (N * (N + 1) // 2) * 4 * 1.49e-8 * ospr * max(ospr, 2 * np.abs(o).max())
    out.check_close("modes/" + case["method"], st_, r2, tol + qterm, "vs explicit system+modes evolution")
    return out


def subs(tier):
    return [
        Sub("ibm", run_ibm, strategy=s_ibm, budget={"quick": 1600, "thorough": 12000}),
        Sub("modes", run_modes, strategy=s_modes, budget={"quick": 256, "thorough": 1500}),
    ]
