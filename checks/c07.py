"""C07 - multi-time correlations are exact and aligned with the returned time axes."""
import itertools
import math
import warnings

import numpy as np
from hypothesis import strategies as st

from vlib import ancgen, gens, sysgen
from vlib.refs import anc as A
from vlib.runner import HarnessError, Outcome, Sub

ID = "C07"
LEVEL = "exploration"
RULE = ("(specs, exhaustive) on an exact ancilla environment with N+1 grid points (N=4 quick, 5 thorough) EVERY time "
        "specification is enumerated: every int, every slice with start/stop/step in {None,-(N+1)..N+1} (step != 0), every "
        "permutation of every non-empty subset as a list (plus lists with a repeat), every on-grid and unambiguous off-grid "
        "float, every (float,float) interval in both directions incl. single points; each is used as times_a and as times_b "
        "against the full range and against a reversed list. Oracle: returned time arrays = reference parse (R-times); entry "
        "[i,j] = exact correlation G[t_a[i],t_b[j]] from the explicit joint evolution when t_a<=t_b, NaN otherwise and only "
        "then. (pairs, nt) Hypothesis-generated pairs of specifications, 3-4 operators with left/right orderings, start_time "
        "!= 0, PT-TEMPO self-consistency (spec vs int,int). (dt) the dt argument with dt-less / equal / different tensor dt. "
        "(anti) anti-ordered = conj of ordered with operators exchanged and daggered, transposed. (bath) "
        "TwoTimeBathCorrelations occupation/correlation vs the displaced-oscillator closed form for pure dephasing, "
        "followed by 0-3 further queries to the same object (repeated or new arguments, band widths dw in {0.3,0.5,1,2}, "
        "interaction picture on/off, change_only on/off), each against the closed form. "
        "Non-trivial: the specification selects >=2 times and is not ascending-contiguous, or an interval is reversed, or "
        ">=3 operators; distinct = distinct canonical JSON.")
TECHNIQUE = "exhaustive enumeration of the time-specification space + Hypothesis property-based testing against exact reference correlations"
LEVEL_TEXT = ("The whole space of time specifications on a small grid is enumerated against an exact multi-time correlation "
              "table from the explicit system+ancilla evolution and a reference model of the parser; pairs, n-time "
              "correlations, the dt argument, anti-ordering and bath correlations are explored with generated inputs.")
LEVEL_NOTE = ("Empty selections may either raise IndexError/ValueError or return empty arrays. A dt that disagrees with the "
              "tensor's dt must either be refused or govern both axes and dynamics. Trusts vlib/refs/anc.py.")
ASSUMPTIONS = ["float times are generated >= 0.2 dt away from half-integers (unambiguous rounding)"]


# --------------------------------------------------------------- fixed exact set-up

def _setup(N, dt, t0, seed_case=None, d=2):
    import oqupy
    sc = seed_case or {}
    Hs = sc.get("H") or [[[0.5, 0.0], [0.25, -0.5]], [[0.25, 0.5], [-0.75, 0.0]]]
    H = gens.herm(Hs)
    system = oqupy.System(H, gammas=[0.2], lindblad_operators=[np.array([[0, 1], [0, 0]], dtype=complex)])
    props_P = A.half_props(H, dt, [0.2], [np.array([[0, 1], [0, 0]], dtype=complex)])
    env_spec = sc.get("env") or {"e": 2, "kind": "generic", "const": True,
                                 "rhoE": [[[1.0, 0.0], [0.5, 0.5]], [[0.0, 0.5], [0.5, 0.0]]], "scale": 0.7,
                                 "hs": [[[[1, 0], [0.5, 0.5], [0, -1], [0.5, 0]], [[0.5, -0.5], [0, 0], [1, 0.5], [0, 1]],
                                         [[0, 1], [1, -0.5], [-1, 0], [0.5, 0.5]], [[0.5, 0], [0, -1], [0.5, -0.5], [0.5, 0]]]],
                                 "noise": None, "store": "rank4"}
    env = ancgen.build_env(env_spec, d, N, dt=dt)
    rho0 = gens.build_dm(sc.get("rho0") or [[[1.0, 0.0], [0.5, 0.25]], [[0.0, -0.5], [0.5, 0.0]]])
    return system, env, rho0, (lambda k: (props_P, props_P))


def exact_table(ops, orders, env, rho0, props, N, d=2):
    """G[t_1,...,t_n] for non-decreasing times (NaN elsewhere)"""
    from oqupy import operators
    n = len(ops)
    shape = [N + 1] * n
    G = np.full(shape, np.nan + 1j * np.nan, dtype=complex)
    sups = [operators.left_super(o) if od == "left" else operators.right_super(o) for o, od in zip(ops[:-1], orders[:-1])]
    for first in itertools.product(range(N + 1), repeat=n - 1):
        if list(first) != sorted(first):
            continue
        ctl = {}
        for t, S in zip(first, sups):
            pre, post = ctl.get(t, (None, None))
            ctl[t] = (S if pre is None else S @ pre, None)
        ref = A.ref_dynamics(d, [env], rho0, props, N, ctl)
        for tl in range(first[-1], N + 1):
            G[first + (tl,)] = np.trace(ops[-1] @ ref[tl])
    return G


# --------------------------------------------------------------- reference parser (R-times)

def ref_parse(spec, N, dt, t0):
    """returns list of steps, or None when the specification selects nothing / is out of range"""
    k = spec["kind"]
    if k == "int":
        return [spec["v"]] if 0 <= spec["v"] <= N else None
    if k == "slice":
        return list(range(N + 1))[slice(spec["a"], spec["b"], spec["c"])]
    if k == "list":
        return list(spec["v"])
    if k == "float":
        return [int(round(spec["k"] + spec["off"]))]
    if k == "interval":
        a = int(round(spec["k1"] + spec["off1"]))
        b = int(round(spec["k2"] + spec["off2"]))
        step = 1 if a <= b else -1
        return list(range(a, b + step, step))
    raise HarnessError("bad spec")


def lib_spec(spec, dt, t0):
    k = spec["kind"]
    if k == "int":
        return int(spec["v"])
    if k == "slice":
        return slice(spec["a"], spec["b"], spec["c"])
    if k == "list":
        return [int(v) for v in spec["v"]]
    if k == "float":
        return float(t0 + (spec["k"] + spec["off"]) * dt)
    return (float(t0 + (spec["k1"] + spec["off1"]) * dt), float(t0 + (spec["k2"] + spec["off2"]) * dt))


def all_specs(N):
    specs = [{"kind": "int", "v": v} for v in range(N + 1)]
    rng = [None] + list(range(-(N + 1), N + 2))
    for a in rng:
        for b in rng:
            for c in rng:
                if c == 0:
                    continue
                specs.append({"kind": "slice", "a": a, "b": b, "c": c})
    for r in range(1, N + 2):
        for sub in itertools.combinations(range(N + 1), r):
            for perm in itertools.permutations(sub):
                specs.append({"kind": "list", "v": list(perm)})
    for v in range(N + 1):
        specs.append({"kind": "list", "v": [v, (v + 1) % (N + 1), v]})
    for k in range(N + 1):
        for off in (0.0, 0.3, -0.3):
            if 0 <= round(k + off) <= N:
                specs.append({"kind": "float", "k": k, "off": off})
    for k1 in range(N + 1):
        for k2 in range(N + 1):
            for off1, off2 in ((0.0, 0.0), (0.3, -0.3), (-0.2, 0.2)):
                if 0 <= round(k1 + off1) <= N and 0 <= round(k2 + off2) <= N:
                    specs.append({"kind": "interval", "k1": k1, "off1": off1, "k2": k2, "off2": off2})
    return specs


def spec_cases(tier):
    N = 4 if tier == "quick" else 5
    cases = []
    specs = all_specs(N)
    full = {"kind": "slice", "a": None, "b": None, "c": None}
    rev = {"kind": "list", "v": list(range(N, -1, -1))}
    for i, s in enumerate(specs):
        for pos in ("a", "b"):
            for partner in (full, rev):
                cases.append({"N": N, "spec": s, "pos": pos, "partner": partner,
                              "t0": 0.0 if i % 3 else 0.7})
    return cases


_CACHE = {}


def _fixture(N, dt, t0):
    key = (N, dt, t0)
    if key not in _CACHE:
        system, env, rho0, props = _setup(N, dt, t0)
        Aop = np.array([[0.5, 1.0 - 0.5j], [0.25j, -1.0]], dtype=complex)
        Bop = np.array([[1.0, 0.5j], [0.5 + 0.5j, 0.25]], dtype=complex)
        G = exact_table([Aop, Bop], ["left", "left"], env, rho0, props, N)
        _CACHE[key] = (system, env, rho0, Aop, Bop, G)
    return _CACHE[key]


def _nontrivial_spec(steps, spec):
    if steps is None or len(steps) == 0:
        return False
    if spec["kind"] == "interval" and len(steps) >= 2 and steps[0] > steps[-1]:
        return True
    if len(steps) >= 2 and steps != list(range(steps[0], steps[0] + len(steps))):
        return True
    return False


def check_two_time(out, tag, got, ta, tb, G, dt, t0):
    times, corr = got
    want_ta = t0 + dt * np.array(ta, dtype=float)
    want_tb = t0 + dt * np.array(tb, dtype=float)
    ok = out.check_close(tag + "/times_a", np.asarray(times[0], dtype=float), want_ta, 1e-12 * (abs(t0) + 10))
    ok = out.check_close(tag + "/times_b", np.asarray(times[1], dtype=float), want_tb, 1e-12 * (abs(t0) + 10)) and ok
    if not ok:
        return
    corr = np.asarray(corr)
    if corr.shape != (len(ta), len(tb)):
        out.fail(tag + "/shape", f"{corr.shape} vs {(len(ta), len(tb))}")
        return
    want = np.array([[G[a, b] if a <= b else np.nan + 1j * np.nan for b in tb] for a in ta], dtype=complex).reshape(len(ta), len(tb))
    nan_got = np.isnan(corr)
    nan_want = np.isnan(want)
    if np.any(nan_got != nan_want):
        i, j = np.argwhere(nan_got != nan_want)[0]
        out.fail(tag + "/nan-pattern", f"entry [{i},{j}] (t_a={ta[i]}, t_b={tb[j]}) is {'NaN' if nan_got[i, j] else 'a number'}, "
                 f"expected {'NaN' if nan_want[i, j] else 'a number'}")
        return
    dev = np.abs(np.where(nan_want, 0, corr - np.where(nan_want, 0, want)))
    m = float(dev.max()) if dev.size else 0.0
    out.metric(tag + "/values/tol", m / 1e-10)
    if m > 1e-10:
        i, j = np.unravel_index(int(np.argmax(dev)), dev.shape)
        out.fail(tag + "/values", f"entry [{i},{j}] (t_a={ta[i]}, t_b={tb[j]}) = {corr[i, j]:.6g}, exact {want[i, j]:.6g}")


def run_spec(case):
    import oqupy
    out = Outcome()
    N, t0 = case["N"], case["t0"]
    dt = 0.1
    system, env, rho0, Aop, Bop, G = _fixture(N, dt, t0)
    spec, partner = case["spec"], case["partner"]
    s_steps = ref_parse(spec, N, dt, t0)
    p_steps = ref_parse(partner, N, dt, t0)
    sa, sb = (spec, partner) if case["pos"] == "a" else (partner, spec)
    ta, tb = (s_steps, p_steps) if case["pos"] == "a" else (p_steps, s_steps)
    out.label("kind=" + spec["kind"], "pos=" + case["pos"])
    out.nontrivial = _nontrivial_spec(s_steps, spec)
    empty = s_steps is None or len(s_steps) == 0
    try:
        got = oqupy.compute_correlations(system, env["pt"], Aop, Bop, lib_spec(sa, dt, t0), lib_spec(sb, dt, t0),
                                         initial_state=rho0, start_time=float(t0), progress_type="silent")
    except (IndexError, ValueError) as exc:
        if empty:
            out.label("empty-selection-raises")
            return out
        out.fail(f"raises-{type(exc).__name__}:{spec['kind']}" + (":reversed" if spec["kind"] == "interval" and s_steps[0] > s_steps[-1] else ""),
                 f"{lib_spec(sa, dt, t0)!r}, {lib_spec(sb, dt, t0)!r}: {exc}")
        return out
    if empty:
        out.label("empty-selection-returns")
        times, corr = got
        if np.asarray(corr).size != 0:
            out.fail("empty-selection-nonempty-result", f"{np.asarray(corr).shape}")
        return out
    check_two_time(out, "spec", got, ta, tb, G, dt, t0)
    return out


# --------------------------------------------------------------- generated pairs / n-time / PT-TEMPO self-consistency

@st.composite
def s_spec(draw, N):
    kind = draw(st.sampled_from(["int", "slice", "list", "float", "interval"]))
    if kind == "int":
        return {"kind": "int", "v": draw(st.integers(0, N))}
    if kind == "slice":
        r = st.sampled_from([None] + list(range(-(N + 1), N + 2)))
        return {"kind": "slice", "a": draw(r), "b": draw(r), "c": draw(st.sampled_from([None, 1, 2, -1, -2, 3]))}
    if kind == "list":
        return {"kind": "list", "v": draw(st.lists(st.integers(0, N), min_size=1, max_size=N + 2))}
    off = st.sampled_from([0.0, 0.3, -0.3, 0.1])
    if kind == "float":
        k = draw(st.integers(0, N))
        o = draw(off)
        if not 0 <= round(k + o) <= N:
            o = 0.0
        return {"kind": "float", "k": k, "off": o}
    k1, k2 = draw(st.integers(0, N)), draw(st.integers(0, N))
    o1, o2 = draw(off), draw(off)
    if not 0 <= round(k1 + o1) <= N:
        o1 = 0.0
    if not 0 <= round(k2 + o2) <= N:
        o2 = 0.0
    return {"kind": "interval", "k1": k1, "off1": o1, "k2": k2, "off2": o2}


@st.composite
def s_nt(draw, tier):
    N = draw(st.integers(2, 4))
    n = draw(st.sampled_from([2, 2, 3, 3, 4]))
    if n == 4:
        N = min(N, 3)
    return {"N": N, "n": n, "dt": draw(st.sampled_from([0.1, 0.25])), "t0": draw(st.sampled_from([0.0, 0.7, -1.5])),
            "specs": [draw(s_spec(N)) for _ in range(n)],
            "orders": [draw(st.sampled_from(["left", "right"])) for _ in range(n)],
            "ops": [draw(gens.cmatrix(2, 2, 1, 2)) for _ in range(n)],
            "H": draw(gens.herm_spec(2, 1, 2)), "env": draw(ancgen.env_spec(2, N, allow_transforms=False, e_max=2)),
            "rho0": draw(gens.dm_spec(2))}


def run_nt(case):
    from oqupy.system_dynamics import compute_correlations_nt
    out = Outcome()
    N, n, dt, t0 = case["N"], case["n"], case["dt"], case["t0"]
    system, env, rho0, props = _setup(N, dt, t0, seed_case={"H": case["H"], "env": case["env"], "rho0": case["rho0"]})
    ops = [gens.to_c(o) for o in case["ops"]]
    steps = [ref_parse(s, N, dt, t0) for s in case["specs"]]
    out.label(f"n={n}")
    for s in case["specs"]:
        out.label("kind=" + s["kind"])
    if any(s is None or len(s) == 0 for s in steps):
        out.label("empty-selection")
        try:
            compute_correlations_nt(system, env["pt"], ops, [lib_spec(s, dt, t0) for s in case["specs"]], case["orders"],
                                    initial_state=rho0, start_time=float(t0), progress_type="silent")
        except (IndexError, ValueError):
            pass
        return out
    out.nontrivial = n >= 3 or any(_nontrivial_spec(st_, s) for st_, s in zip(steps, case["specs"]))
    G = exact_table(ops, case["orders"], env, rho0, props, N)
    times, corr = compute_correlations_nt(system, env["pt"], ops, [lib_spec(s, dt, t0) for s in case["specs"]],
                                          case["orders"], initial_state=rho0, start_time=float(t0),
                                          progress_type="silent")
    for i in range(n):
        if not out.check_close("nt/times", np.asarray(times[i], dtype=float), t0 + dt * np.array(steps[i], dtype=float),
                               1e-12 * (abs(t0) + 10)):
            return out
    corr = np.asarray(corr)
    shape = tuple(len(s) for s in steps)
    if corr.shape != shape:
        out.fail("nt/shape", f"{corr.shape} vs {shape}")
        return out
    for idx in itertools.product(*[range(k) for k in shape]):
        ts = tuple(steps[i][idx[i]] for i in range(n))
        ordered = list(ts) == sorted(ts)
        v = corr[idx]
        if ordered:
            if np.isnan(v):
                out.fail("nt/nan-pattern", f"entry {idx} times {ts} is NaN but the times are ordered")
                return out
            if abs(v - G[ts]) > 1e-10 * max(1.0, abs(G[ts])):
                out.fail("nt/values", f"entry {idx} times {ts}: {v:.6g} vs exact {G[ts]:.6g}")
                return out
        elif not np.isnan(v):
            out.fail("nt/nan-pattern", f"entry {idx} times {ts} is a number but the times are not ordered")
            return out
    return out


# --------------------------------------------------------------- dt argument and anti-ordering

@st.composite
def s_dt(draw, tier):
    N = draw(st.integers(2, 4))
    return {"N": N, "pt_dt": draw(st.sampled_from([None, 0.1, 0.1, 0.2])), "dt": draw(st.sampled_from([None, 0.1, 0.2])),
            "t0": draw(st.sampled_from([0.0, 0.5])), "sa": draw(s_spec(N)), "sb": draw(s_spec(N)),
            "order": draw(st.sampled_from(["ordered", "anti"]))}


def run_dt(case):
    import oqupy
    out = Outcome()
    N, t0 = case["N"], case["t0"]
    pt_dt, dt_arg = case["pt_dt"], case["dt"]
    if pt_dt is None and dt_arg is None:
        out.label("no-dt-anywhere")
        return out
    dt_eff = dt_arg if dt_arg is not None else pt_dt
    # the tensor itself is dt-agnostic (ancilla unitaries); the system propagators depend on dt
    system, env, rho0, props = _setup(N, dt_eff, t0)
    env = ancgen.build_env({"e": 2, "kind": "generic", "const": True,
                            "rhoE": [[[1.0, 0.0], [0.5, 0.5]], [[0.0, 0.5], [0.5, 0.0]]], "scale": 0.7,
                            "hs": [[[[1, 0], [0.5, 0.5], [0, -1], [0.5, 0]], [[0.5, -0.5], [0, 0], [1, 0.5], [0, 1]],
                                    [[0, 1], [1, -0.5], [-1, 0], [0.5, 0.5]], [[0.5, 0], [0, -1], [0.5, -0.5], [0.5, 0]]]],
                            "noise": None, "store": "rank4"}, 2, N, dt=pt_dt)
    Aop = np.array([[0.5, 1.0 - 0.5j], [0.25j, -1.0]], dtype=complex)
    Bop = np.array([[1.0, 0.5j], [0.5 + 0.5j, 0.25]], dtype=complex)
    ta = ref_parse(case["sa"], N, dt_eff, t0)
    tb = ref_parse(case["sb"], N, dt_eff, t0)
    mismatch = pt_dt is not None and dt_arg is not None and pt_dt != dt_arg
    out.label("pt-dt=" + str(pt_dt), "dt-arg=" + str(dt_arg), "mismatch" if mismatch else "consistent", case["order"])
    if not ta or not tb:
        out.label("empty-selection")
        return out
    out.nontrivial = mismatch or (pt_dt is None) or case["order"] == "anti"
    try:
        with warnings.catch_warnings():
            warnings.simplefilter("ignore")
            got = oqupy.compute_correlations(system, env["pt"], Aop, Bop, lib_spec(case["sa"], dt_eff, t0),
                                             lib_spec(case["sb"], dt_eff, t0), time_order=case["order"],
                                             initial_state=rho0, start_time=float(t0), dt=dt_arg,
                                             progress_type="silent")
    except Exception as exc:
        if mismatch and isinstance(exc, (ValueError, AssertionError)):
            out.label("mismatch-refused")
            return out
        out.fail("dt/raises-" + type(exc).__name__ + (":pt-without-dt" if pt_dt is None else ""), str(exc)[:200])
        return out
    if case["order"] == "ordered":
        G = exact_table([Aop, Bop], ["left", "left"], env, rho0, props, N)
        check_two_time(out, "dt" + ("/mismatch" if mismatch else ""), got, ta, tb, G, dt_eff, t0)
    else:
        # <B(t_b) A(t_a)> for t_b <= t_a  = conj <A^+(t_a) B^+(t_b)>_ordered
        G2 = exact_table([Bop.conj().T, Aop.conj().T], ["left", "left"], env, rho0, props, N)
        times, corr = got
        out.check_close("anti/times_a", np.asarray(times[0], dtype=float), t0 + dt_eff * np.array(ta, dtype=float), 1e-12 * (abs(t0) + 10))
        out.check_close("anti/times_b", np.asarray(times[1], dtype=float), t0 + dt_eff * np.array(tb, dtype=float), 1e-12 * (abs(t0) + 10))
        corr = np.asarray(corr)
        if corr.shape != (len(ta), len(tb)):
            out.fail("anti/shape", f"{corr.shape} vs {(len(ta), len(tb))}")
            return out
        for i, a in enumerate(ta):
            for j, b in enumerate(tb):
                v = corr[i, j]
                if b <= a:
                    want = np.conj(G2[b, a])
                    if np.isnan(v) or abs(v - want) > 1e-10 * max(1.0, abs(want)):
                        out.fail("anti/values", f"[{i},{j}] (t_a={a}, t_b={b}) = {v:.6g}, exact {want:.6g}")
                        return out
                elif not np.isnan(v):
                    out.fail("anti/nan-pattern", f"[{i},{j}] (t_a={a}, t_b={b}) should be NaN")
                    return out
        # and the relation stated in the property, against the library's own ordered result
        t2, c2 = oqupy.compute_correlations(system, env["pt"], Bop.conj().T, Aop.conj().T, lib_spec(case["sb"], dt_eff, t0),
                                            lib_spec(case["sa"], dt_eff, t0), time_order="ordered", initial_state=rho0,
                                            start_time=float(t0), dt=dt_arg, progress_type="silent")
        c2 = np.conj(np.asarray(c2)).T
        same = (np.isnan(c2) == np.isnan(corr)).all() and np.nanmax(np.abs(np.nan_to_num(c2 - corr))) < 1e-10
        if not same:
            out.fail("anti/relation", "anti != conj(ordered with operators exchanged and daggered)^T")
    return out


# --------------------------------------------------------------- PT-TEMPO self-consistency

@st.composite
def s_self(draw, tier):
    N = draw(st.integers(2, 5))
    return {"N": N, "sa": draw(s_spec(N)), "sb": draw(s_spec(N)), "t0": draw(st.sampled_from([0.0, 1.1])),
            "alpha": draw(st.sampled_from([0.1, 0.3])), "rot": draw(st.booleans()),
            "H": draw(gens.herm_spec(2, 1, 2)), "rho0": draw(gens.dm_spec(2))}


def run_self(case):
    import oqupy
    from oqupy import operators
    out = Outcome()
    N, t0, dt = case["N"], case["t0"], 0.1
    O = 0.5 * operators.sigma("z") + (0.3 * operators.sigma("x") if case["rot"] else 0)
    bath = oqupy.Bath(O, oqupy.PowerLawSD(alpha=case["alpha"], zeta=1.0, cutoff=3.0, temperature=0.3))
    pt = oqupy.pt_tempo_compute(bath, t0, t0 + (N + 0.5) * dt, oqupy.TempoParameters(dt=dt, epsrel=1e-9),
                                progress_type="silent")
    system = oqupy.System(gens.herm(case["H"]))
    rho0 = gens.build_dm(case["rho0"])
    Aop, Bop = operators.sigma("x") + 0.5j * operators.sigma("z"), operators.sigma("y") + 0.25 * operators.sigma("-")
    ta = ref_parse(case["sa"], N, dt, t0)
    tb = ref_parse(case["sb"], N, dt, t0)
    if not ta or not tb:
        out.label("empty-selection")
        return out
    out.nontrivial = _nontrivial_spec(ta, case["sa"]) or _nontrivial_spec(tb, case["sb"])
    out.label("kind_a=" + case["sa"]["kind"], "kind_b=" + case["sb"]["kind"])
    kw = dict(initial_state=rho0, start_time=float(t0), progress_type="silent")
    times, corr = oqupy.compute_correlations(system, pt, Aop, Bop, lib_spec(case["sa"], dt, t0), lib_spec(case["sb"], dt, t0), **kw)
    G = np.full((N + 1, N + 1), np.nan + 1j * np.nan, dtype=complex)
    for a in sorted(set(ta)):
        for b in sorted(set(tb)):
            if a <= b:
                G[a, b] = oqupy.compute_correlations(system, pt, Aop, Bop, int(a), int(b), **kw)[1][0, 0]
    check_two_time(out, "self", (times, corr), ta, tb, G, dt, t0)
    return out


# --------------------------------------------------------------- bath correlations (displaced oscillator)

@st.composite
def s_bath(draw, tier):
    d = draw(st.integers(2, 3))
    return {"d": d, "o": draw(st.lists(st.sampled_from([-1.0, -0.5, 0.25, 0.5, 1.0]), min_size=d, max_size=d)),
            "E": [draw(gens.grid(-1, 1, 4)) for _ in range(d)], "rho0": draw(gens.dm_spec(d)),
            "T": draw(st.sampled_from([0.0, 0.4, 1.0])), "alpha": draw(st.sampled_from([0.05, 0.15])),
            # mostly short tensors; sometimes 10..16 steps (d = 2 then) and other time steps: the time axis of occupation()
            "N": draw(st.integers(4, 8)) if (d == 3 or draw(st.integers(0, 3)) > 0) else draw(st.integers(10, 16)),
            "dt": draw(st.sampled_from([0.1, 0.1, 0.05, 0.125])), "w1": draw(st.sampled_from([0.9, 1.7, 2.5])),
            "w2": draw(st.sampled_from([None, 0.9, 1.7])), "k1": draw(st.integers(1, 3)), "k2": draw(st.integers(3, 4)),
            "dagg": draw(st.sampled_from([[1, 0], [0, 1], [0, 0], [1, 1]])), "dw": draw(st.sampled_from([1.0, 0.5])),
            # the whole pure-dephasing model written in a rotated basis (coupling operator not diagonal, complex)
            "V": draw(st.one_of(st.just({"kind": "identity"}), gens.unitary_spec(d, allow_identity=False))),
            # further queries to the SAME object (repeated arguments with other band widths / pictures / flags)
            "queries": draw(st.lists(st.fixed_dictionaries({
                "kind": st.sampled_from(["correlation", "correlation", "occupation"]),
                "same_as_first": st.booleans(), "w1": st.sampled_from([0.9, 1.7, 2.5]), "w2": st.sampled_from([None, 0.9, 1.7]),
                "k1": st.integers(1, 3), "k2": st.integers(3, 8), "dagg": st.sampled_from([[1, 0], [0, 1], [0, 0], [1, 1]]),
                "dw": st.lists(st.sampled_from([1.0, 0.5, 2.0, 0.3]), min_size=2, max_size=2),
                "ip": st.booleans(), "change_only": st.booleans()}), min_size=0, max_size=3))}


def run_bath(case):
    import oqupy
    out = Outcome()
    d, T, N, dt = case["d"], case["T"], case["N"], case.get("dt", 0.1)
    o = np.array(case["o"], dtype=float)
    if o.max() == o.min():
        o[0] += 0.5
    O = np.diag(o).astype(complex)
    H = np.diag(np.array(case["E"], dtype=float)).astype(complex)
    rho0 = gens.build_dm(case["rho0"])
    Vs = case.get("V") or {"kind": "identity"}
    if Vs["kind"] != "identity":
        V = gens.build_unitary(Vs, d)
        O, H, rho0 = V @ O @ V.conj().T, V @ H @ V.conj().T, V @ rho0 @ V.conj().T
        O, H = (O + O.conj().T) / 2, (H + H.conj().T) / 2
        out.label("rotated-coupling", "complex-coupling" if np.abs(O.imag).max() > 1e-12 else "real-coupling")
    corr = oqupy.PowerLawSD(case["alpha"], 1.0, 3.0, temperature=T)
    bath = oqupy.Bath(O, corr)
    system = oqupy.System(H)
    pt = oqupy.pt_tempo_compute(bath, 0.0, (N + 0.5) * dt, oqupy.TempoParameters(dt=dt, epsrel=1e-9), progress_type="silent")
    bd = oqupy.TwoTimeBathCorrelations(system, bath, pt, initial_state=rho0)
    O2 = float(np.trace(O @ O @ rho0).real)
    w1 = case["w1"]
    w2 = case["w2"] or w1
    out.nontrivial = True
    out.label("T=0" if T == 0 else "T>0", "dagg=" + str(tuple(case["dagg"])), "w1=w2" if w1 == w2 else "w1!=w2")
    nb = lambda w: 0.0 if T == 0 else 1.0 / math.expm1(w / T)
    J = lambda w: 2 * case["alpha"] * w * math.exp(-w / 3.0)
    ts, occ = bd.occupation(w1, case["dw"], progress_type="silent")
    exact = nb(w1) + case["dw"] * J(w1) * O2 * 2 * (1 - np.cos(w1 * ts)) / w1 ** 2
    if len(ts) != len(occ):
        out.fail("bath/occupation-axis-length", f"{len(ts)} times for {len(occ)} occupation values (dt={dt}, {N} steps)")
        return out
    out.label("long-tensor" if N >= 10 else "short-tensor")
    out.check_close("bath/occupation-times", ts, dt * np.arange(N + 1), 1e-12)
    out.check_close("bath/occupation", occ, exact, 1e-7 * max(1.0, float(np.abs(exact).max())), "vs displaced oscillator")
    t1, t2 = case["k1"] * dt, case["k2"] * dt
    f = lambda w, t: (1 - np.exp(-1j * w * t)) / w
    same = 1.0 if w1 == w2 else 0.0
    g2 = math.sqrt(J(w1) * J(w2)) * O2
    dg = tuple(case["dagg"])
    ex = {(1, 0): same * nb(w1) * np.exp(1j * (w2 * t2 - w1 * t1)) + g2 * np.conj(f(w2, t2)) * f(w1, t1),
          (0, 1): same * (nb(w1) + 1) * np.exp(-1j * (w2 * t2 - w1 * t1)) + g2 * f(w2, t2) * np.conj(f(w1, t1)),
          (0, 0): g2 * f(w2, t2) * f(w1, t1),
          (1, 1): g2 * np.conj(f(w2, t2)) * np.conj(f(w1, t1))}[dg]
    c = bd.correlation(w1, t1, freq_2=w2, time_2=t2, dagg=dg, progress_type="silent")
    out.check_close("bath/correlation", complex(c), complex(ex), 1e-7 * max(1.0, abs(ex)), f"dagg={dg}")
    first = dict(w1=w1, w2=w2, k1=case["k1"], k2=case["k2"], dagg=list(dg))
    if case.get("queries") and case["queries"][0]["ip"]:
        # half of the query histories start on a fresh object: its table of system correlations is then generated
        # incrementally, in the order of the requested final times (the object above has generated the full table)
        bd = oqupy.TwoTimeBathCorrelations(system, bath, pt, initial_state=rho0)
        out.label("queries-on-fresh-object")
    for qi, q in enumerate(case.get("queries", [])):
        q = dict(q, **first) if q["same_as_first"] else dict(q, w2=q["w2"] or q["w1"])
        a1, a2 = q["w1"], q["w2"]
        if q["kind"] == "occupation":
            ts, occ = bd.occupation(a1, q["dw"][0], change_only=q["change_only"], progress_type="silent")
            exact = (0.0 if q["change_only"] else nb(a1)) + q["dw"][0] * J(a1) * O2 * 2 * (1 - np.cos(a1 * ts)) / a1 ** 2
            out.label("query:occupation", "change-only" if q["change_only"] else "total")
            out.check_close("bath/occupation-query", occ, exact, 1e-7 * max(1.0, float(np.abs(exact).max())),
                            f"query {qi} on the same object (dw={q['dw'][0]}, change_only={q['change_only']})")
            continue
        t1, t2 = q["k1"] * dt, min(q["k2"], N) * dt          # times beyond the process tensor are invalid input
        dg = tuple(q["dagg"])
        same = 1.0 if a1 == a2 else 0.0
        g2 = q["dw"][0] * q["dw"][1] * math.sqrt(J(a1) * J(a2)) * O2
        th = 0.0 if q["change_only"] else same
        ex = {(1, 0): th * nb(a1) * np.exp(1j * (a2 * t2 - a1 * t1)) + g2 * np.conj(f(a2, t2)) * f(a1, t1),
              (0, 1): th * (nb(a1) + 1) * np.exp(-1j * (a2 * t2 - a1 * t1)) + g2 * f(a2, t2) * np.conj(f(a1, t1)),
              (0, 0): g2 * f(a2, t2) * f(a1, t1),
              (1, 1): g2 * np.conj(f(a2, t2)) * np.conj(f(a1, t1))}[dg]
        if q["ip"]:
            # bath interaction picture: a~(t) = e^{iwt} a(t)
            ex = ex * np.exp(-1j * ((2 * dg[0] - 1) * a2 * t2 + (2 * dg[1] - 1) * a1 * t1))
        c = bd.correlation(a1, t1, freq_2=a2, time_2=t2, dw=tuple(q["dw"]), dagg=dg, interaction_picture=q["ip"],
                           change_only=q["change_only"], progress_type="silent")
        out.label("query:correlation", "repeat-of-first" if q["same_as_first"] else "other-arguments",
                  "interaction-picture" if q["ip"] else "schroedinger", "change-only" if q["change_only"] else "total")
        out.check_close("bath/correlation-query", complex(c), complex(ex), 1e-7 * max(1.0, abs(ex)),
                        f"query {qi} on the same object: dagg={dg} dw={q['dw']} ip={q['ip']} change_only={q['change_only']}")
    return out


def subs(tier):
    return [
        Sub("specs", run_spec, cases=spec_cases, exhaustive=True, budget={"quick": 1, "thorough": 1}),
        Sub("nt", run_nt, strategy=s_nt, budget={"quick": 1200, "thorough": 8000}),
        Sub("dt-anti", run_dt, strategy=s_dt, budget={"quick": 1200, "thorough": 8000}),
        Sub("self-consistency", run_self, strategy=s_self, budget={"quick": 240, "thorough": 1600}),
        Sub("bath", run_bath, strategy=s_bath, budget={"quick": 240, "thorough": 2000}),
    ]
