"""C12 - bath correlation functions and their 2D integrals are consistent and correct."""
import math

import numpy as np
from hypothesis import strategies as st
from scipy import integrate

from vlib import gens
from vlib.refs import corr as R
from vlib.runner import Outcome, Sub

ID = "C12"
LEVEL = "exploration"
RULE = ("Hypothesis-generated spectral densities (power law with alpha, zeta in (0,4], cut-off frequency, "
        "cut-off type hard/exponential/gaussian, temperature 0..50 across the overflow guard; custom j-functions "
        "from a small grammar; finite-mode CustomCorrelations), cell size dt, cell position k<=20 and rectangle "
        "extent. Oracles: independent frequency-domain quadrature (R-corr), quadrature of the object's own "
        "correlation(), tiling/additivity identities, C(-t)=conj C(t), closed form (exponential cut-off, T=0), "
        "CustomSD==PowerLawSD, Matsubara integrals real and equal to the imaginary-time kernel integrals. "
        "Non-trivial: temperature > 0 or cut-off type not exponential or custom density (no closed form available "
        "to the library author's tests); distinct = distinct canonical JSON encoding of the generated case.")
TECHNIQUE = 'Hypothesis property-based testing against an independent quadrature reference, closed forms and metamorphic identities'
LEVEL_TEXT = "Generated spectral densities/cells; every 2D integral is compared with an independent frequency-domain quadrature, with quadrature of the object's own correlation(), with tiling/additivity identities, closed forms and the imaginary-time kernel. Exploration within stated parameter ranges; no proof of absence."
LEVEL_NOTE = 'Trusts scipy.integrate.quad at epsrel 1e-12 on few-oscillation pieces as the reference; tolerances are 100x the quadrature tolerance the library requests (calibrated).'
ASSUMPTIONS = [
    "reference quadrature (scipy quad on few-oscillation pieces, epsrel 1e-12) is accurate to 1e-10 relative",
    "library is asked for its default quadrature tolerance 2^-26 and scipy's default epsabs 1.49e-8 per quad call",
    "sub-ohmic (zeta<1) densities at T>0 are only resolved to 5e-4 relative by the library's requested quadrature",
]

QREL = 2.0 ** -26
QABS = 1.49e-8


def tol_eta(scale, spec, nquad=16):
    # QUADPACK's error estimate is not a guarantee: on the half-infinite oscillatory pieces the
    # observed error reaches ~10x the requested relative tolerance (calibrated, see DESIGN C12)
    t = 100.0 * (nquad * QABS + QREL * scale)
    if R.lowest_power(spec) < 1.0 and spec["T"] > 0:
        t += 5e-4 * scale
    return t


@st.composite
def s_sd_case(draw, tier, custom=False):
    spec = draw(gens.custom_spec() if custom else gens.powerlaw_spec())
    dt = draw(st.sampled_from([0.02, 0.05, 0.1, 0.13, 0.2, 0.3, 0.5]))
    k = draw(st.integers(1, 20))
    ext = draw(st.sampled_from([0.25, 0.5, 1.0, 1.7, 2.0, 3.3]))
    n_tile = draw(st.integers(2, 6))
    own = draw(st.integers(0, 5)) == 0
    frac = draw(st.sampled_from([0.0, 0.0, 0.25, 0.5, 0.75]))
    return dict(spec=spec, dt=dt, k=k, ext=ext, n_tile=n_tile, own=own, frac=frac)


def _weight_integral(C, a, b, dt):
    """int_a^b dt' int_0^dt dt'' C(t'-t'') as a 1D integral of C with overlap weight"""
    def w(u):
        return max(0.0, min(b, u + dt) - max(a, u))
    lo, hi = a - dt, b
    pts = sorted({a - dt, a, b - dt, b} & {x for x in (a - dt, a, b - dt, b) if lo < x < hi})
    re = integrate.quad(lambda u: w(u) * C(u).real, lo, hi, points=pts or None,
                        epsabs=1e-11, epsrel=1e-8, limit=100)[0]
    im = integrate.quad(lambda u: w(u) * C(u).imag, lo, hi, points=pts or None,
                        epsabs=1e-11, epsrel=1e-8, limit=100)[0]
    return re + 1j * im


def run_sd(case):
    out = Outcome()
    spec, dt, k, ext, n_tile = case["spec"], case["dt"], case["k"], case["ext"], case["n_tile"]
    T = spec["T"]
    ct = spec["cutoff_type"]
    c = gens.build_corr(spec)
    out.nontrivial = T > 0 or ct != "exponential" or spec["type"] == "custom"
    out.label("cutoff=" + ct, "T=0" if T == 0 else "T>0", spec["type"])
    if gens.guard_crossed(spec):
        out.label("guard-crossed")
    if R.lowest_power(spec) < 1:
        out.label("sub-ohmic")
    t1 = k * dt
    t2 = t1 + ext * dt
    # --- (vii) independent frequency-domain values
    tri = c.correlation_2d_integral(dt, 0.0, shape="upper-triangle")
    sq = c.correlation_2d_integral(dt, t1, shape="square")
    rec = c.correlation_2d_integral(dt, t1, t2, shape="rectangle")
    r_tri = R.eta(spec, dt)
    r_sq = R.cell(spec, dt, k)
    r_rec = R.rect(spec, t1, t2, dt)
    scale = abs(R.eta(spec, max(t2, t1 + dt)))
    out.check_close("ref/triangle", tri, r_tri, tol_eta(abs(r_tri), spec, 8), "triangle vs R-corr")
    out.check_close("ref/square", sq, r_sq, tol_eta(scale, spec), "square vs R-corr")
    out.check_close("ref/rectangle", rec, r_rec, tol_eta(scale, spec), "rectangle vs R-corr")
    # --- cells that overlap the diagonal (time_1 < delta): the part below the diagonal uses C(-tau) = conj C(tau)
    fr = case.get("frac")
    if fr is not None:
        out.label("diagonal-overlap")
        ta = fr * dt
        tb = ta + ext * dt
        sq0 = c.correlation_2d_integral(dt, ta, shape="square")
        rc0 = c.correlation_2d_integral(dt, ta, tb, shape="rectangle")
        sc0 = abs(R.eta(spec, max(tb, ta + dt))) + abs(r_tri)
        out.check_close("ref/square-on-diagonal", sq0, R.rect(spec, ta, ta + dt, dt), tol_eta(sc0, spec), "square with time_1 < delta vs R-corr")
        out.check_close("ref/rectangle-on-diagonal", rc0, R.rect(spec, ta, tb, dt), tol_eta(sc0, spec), "rectangle with time_1 < delta vs R-corr")
        en = complex(c.eta_function(-0.7 * dt))
        ep = complex(c.eta_function(0.7 * dt))
        out.check_close("eta(-t)=conj", en, np.conj(ep), tol_eta(abs(ep), spec, 8), "eta(-t) vs conj eta(t)")
    # --- (iii) positivity and symmetry
    if not (tri.real > 0):
        out.fail("triangle-real-part-not-positive", f"Re={tri.real}")
    tt = 0.37 * (1 + k % 5)
    cp = complex(c.correlation(tt))
    cm = complex(c.correlation(-tt))
    out.check_close("C(-t)=conj", cm, np.conj(cp), 10 * (8 * QABS + QREL * abs(cp)), "C(-t) vs conj C(t)")
    # the symmetry also at large time arguments (strongly oscillatory integrands, |tau| * cutoff up to 800); only the
    # symmetry is judged there, not the accuracy of the quadrature
    import warnings
    for x in ((30.0, 300.0, 800.0)[k % 3], 120.0):
        tb = x / spec["wc"]
        with warnings.catch_warnings():
            warnings.simplefilter("ignore")
            cpb = complex(c.correlation(tb))
            cmb = complex(c.correlation(-tb))
        out.check_close("C(-t)=conj/large-t", cmb, np.conj(cpb), 10 * (8 * QABS + QREL * abs(cpb)) + 1e-3 * abs(cpb.imag),
                        f"C(-t) vs conj C(t) at |t| * cutoff = {x}")
    out.check_close("ref/correlation", cp, R.correlation(spec, tt),
                    10 * (8 * QABS + QREL * abs(cp)) + (5e-4 * abs(cp) if R.lowest_power(spec) < 1 and T > 0 else 0),
                    "C(t) vs R-corr")
    # --- (ii) tiling and additivity (algebraic identities of one object)
    tot = 0j
    for j in range(n_tile):
        tot += (n_tile - j) * c.correlation_2d_integral(
            dt, j * dt, shape="upper-triangle" if j == 0 else "square")
    big = c.correlation_2d_integral(n_tile * dt, 0.0, shape="upper-triangle")
    sc_big = abs(R.eta(spec, n_tile * dt))
    out.check_close("tiling", tot, big, tol_eta(sc_big, spec, 8 * n_tile) * n_tile, "sum of cells vs big triangle")
    tm = t1 + 0.4 * ext * dt
    r1 = c.correlation_2d_integral(dt, t1, tm, shape="rectangle")
    r2 = c.correlation_2d_integral(dt, tm, t2, shape="rectangle")
    out.check_close("rect-additivity", r1 + r2, rec, tol_eta(scale, spec, 32), "rect(t1,tm)+rect(tm,t2) vs rect(t1,t2)")
    rdt = c.correlation_2d_integral(dt, t1, t1 + dt, shape="rectangle")
    out.check_close("rect-width-dt=square", rdt, sq, tol_eta(scale, spec, 32), "rectangle of width dt vs square")
    # --- (i) quadrature of the object's own correlation()
    if case["own"]:
        out.label("own-correlation-quadrature")
        C = lambda u: complex(c.correlation(u))
        own_rec = _weight_integral(C, t1, t2, dt)
        cs = abs(cp) * dt * dt + abs(r_rec)
        out.check_close("own/rectangle", rec, own_rec, tol_eta(scale, spec) + 1e-7 * cs, "rectangle vs quad of own C")
        own_tri_re = integrate.quad(lambda u: (dt - u) * C(u).real, 0, dt, epsabs=1e-12, epsrel=1e-9)[0]
        own_tri_im = integrate.quad(lambda u: (dt - u) * C(u).imag, 0, dt, epsabs=1e-12, epsrel=1e-9)[0]
        out.check_close("own/triangle", tri, own_tri_re + 1j * own_tri_im,
                        tol_eta(abs(r_tri), spec, 8) + 1e-7 * abs(r_tri), "triangle vs quad of own C")
    # --- (iv) closed form
    if spec["type"] == "powerlaw" and ct == "exponential" and T == 0:
        out.label("closed-form")
        cf = R.closed_form_eta_exp_T0(spec["alpha"], spec["zeta"], spec["wc"], dt)
        out.check_close("closed-form/eta", tri, cf, 10 * (8 * QABS + QREL * abs(cf)), "triangle vs closed form")
        cc = R.closed_form_corr_exp_T0(spec["alpha"], spec["zeta"], spec["wc"], tt)
        out.check_close("closed-form/C", cp, cc, 10 * (8 * QABS + QREL * abs(cc)), "C(t) vs closed form")
    # --- (v) CustomSD equal to a power law
    if spec["type"] == "powerlaw":
        import oqupy
        a, z, wc = spec["alpha"], spec["zeta"], spec["wc"]
        cu = oqupy.CustomSD(lambda w: 2.0 * a * w ** z * wc ** (1.0 - z), cutoff=wc, cutoff_type=ct, temperature=T)
        sq2 = cu.correlation_2d_integral(dt, t1, shape="square")
        out.check_close("custom==powerlaw/square", sq2, sq, 1e-12 * max(1.0, scale), "CustomSD vs PowerLawSD")
        out.check_close("custom==powerlaw/C", complex(cu.correlation(tt)), cp, 1e-12 * max(1.0, abs(cp)), "CustomSD vs PowerLawSD")
    # --- (vi) Matsubara
    if T >= 0.03:
        out.label("matsubara")
        beta = 1.0 / T
        n = 2 + k % 7
        d = beta / n
        kk = k % n
        m_tri = c.correlation_2d_integral(d, 0.0, shape="upper-triangle", matsubara=True)
        m_sq = c.correlation_2d_integral(d, kk * d, shape="square", matsubara=True) if kk >= 1 else m_tri
        vals = [m_tri, m_sq]
        if any(abs(np.imag(v)) != 0 for v in vals):
            out.fail("matsubara-not-real", f"{vals}")
        lam = R.reorganisation(spec)
        mt = lambda x: -R.matsubara_triangle(spec, x) if x > 0 else 0.0
        ref_tri = mt(d)
        ref_sq = mt((kk + 1) * d) - 2 * mt(kk * d) + mt((kk - 1) * d) if kk >= 1 else ref_tri
        msc = beta * lam
        mtol = 10 * (16 * QABS + QREL * msc) + (5e-4 * msc if R.lowest_power(spec) < 1 else 0)
        out.check_close("matsubara/triangle", np.real(m_tri), ref_tri, mtol, "Matsubara triangle vs kernel integral")
        out.check_close("matsubara/square", np.real(m_sq), ref_sq, mtol, "Matsubara square vs kernel integral")
        total = c.correlation_2d_integral(beta, 0.0, shape="upper-triangle", matsubara=True)
        out.check_close("matsubara/total=-beta*lambda", np.real(total), -beta * lam, mtol, "eta_M(beta) vs -beta*lambda")
        tau0 = d * (0.3 + 0.6 * (k % 3) / 2.0)
        km = c.correlation(tau0, matsubara=True)
        kr = R.matsubara_kernel(spec, tau0)
        out.check_close("matsubara/kernel", np.real(km), kr, 10 * (8 * QABS + QREL * abs(kr)) + (5e-4 * abs(kr) if R.lowest_power(spec) < 1 else 0),
                        "Matsubara correlation vs kernel")
        if abs(np.imag(km)) != 0:
            out.fail("matsubara-not-real", f"kernel {km}")
    return out


@st.composite
def s_modes_case(draw, tier):
    nm = draw(st.integers(1, 3))
    modes = [[draw(st.sampled_from([0.5, 0.8, 1.3, 2.1, 3.4])), draw(st.sampled_from([0.1, 0.25, 0.5, 1.0]))]
             for _ in range(nm)]
    T = draw(st.sampled_from([0.0, 0.2, 1.0, 5.0]))
    dt = draw(st.sampled_from([0.05, 0.1, 0.3]))
    k = draw(st.integers(1, 8))
    ext = draw(st.sampled_from([0.5, 1.0, 1.7, 2.5]))
    return dict(modes=modes, T=T, dt=dt, k=k, ext=ext)


def run_modes(case):
    import oqupy
    out = Outcome()
    modes, T, dt, k, ext = case["modes"], case["T"], case["dt"], case["k"], case["ext"]
    c = oqupy.CustomCorrelations(lambda t: R.modes_correlation(modes, T, t))
    out.nontrivial = len(modes) >= 1 and (T > 0 or len(modes) > 1)
    out.label(f"modes={len(modes)}", "T=0" if T == 0 else "T>0")
    e = lambda t: R.modes_eta(modes, T, t)
    t1 = k * dt
    t2 = t1 + ext * dt
    tri = c.correlation_2d_integral(dt, 0.0, shape="upper-triangle")
    sq = c.correlation_2d_integral(dt, t1, shape="square")
    rec = c.correlation_2d_integral(dt, t1, t2, shape="rectangle")
    sc = sum(g * g for w, g in modes) * (2 / max(math.expm1(min(w for w, g in modes) / T), 1e-300) + 1 if T > 0 else 1) * dt * dt * max(1, ext)
    tol = 10 * (2 * QABS + QREL * sc)
    out.check_close("modes/triangle", tri, e(dt), tol, "triangle vs closed form")
    out.check_close("modes/square", sq, e(t1 + dt) - 2 * e(t1) + e(t1 - dt), tol, "square vs closed form")
    out.check_close("modes/rectangle", rec, e(t2) - e(t1) - e(t2 - dt) + e(t1 - dt), tol, "rectangle vs closed form")
    cp = complex(c.correlation(0.7))
    cm = complex(c.correlation(-0.7))
    out.check_close("modes/C(-t)=conj", cm, np.conj(cp), 1e-13 * max(1, abs(cp)))
    return out


def subs(tier):
    return [
        Sub("powerlaw", run_sd, strategy=lambda t: s_sd_case(t, custom=False),
            budget={"quick": 480, "thorough": 6000}),
        Sub("customsd", run_sd, strategy=lambda t: s_sd_case(t, custom=True),
            budget={"quick": 160, "thorough": 1600}),
        Sub("modes", run_modes, strategy=s_modes_case,
            budget={"quick": 96, "thorough": 800}),
    ]
