"""C10 - PT-TEBD chain dynamics are exact where checkable, in every execution mode."""
import itertools
import json
import os
import subprocess
import sys
import tempfile

import numpy as np
from hypothesis import strategies as st

from vlib import chaingen, gens
from vlib.refs import anc as A
from vlib.runner import REPO_DIR, VERIF_DIR, HarnessError, Outcome, Sub
from vlib.sched import PermutingExecutors

ID = "C10"
LEVEL = "exploration"
RULE = ("Hypothesis-generated chains of 2..5 sites (site dimension 2..3), site Hamiltonians/dissipators, per-site process "
        "tensors in {none, PT-TEMPO, exact ancilla}, Trotter orders 1 and 2, dt, recorded site subsets (singles, pairs, all). "
        "Three exact families: (uncoupled) every site must equal the single-site explicit evolution with the same tensor; "
        "(two-site) arbitrary nn Hamiltonian + nn dissipation and (commuting) chains whose gates all commute must equal the "
        "dense propagation of the full Liouvillian with the ancillas attached; reduced density matrices mutually consistent "
        "under partial trace; norm = 1. Execution modes: (fresh-interpreter) sequential vs 'multithread' vs 'multiprocess' "
        "in a child interpreter that imports only oqupy; (schedules) a permuting executor runs the gates of every layer in "
        "generated completion orders, and for one even and one odd layer application of a 6-site chain in EVERY order "
        "(3! x 2! = 12 schedules, exhaustive). (trotter-order) for generic non-commuting 3-4 site chains, which have no exact "
        "answer at finite dt, the deviation from the dense propagator must shrink by about 2^order when dt is halved (ratio "
        ">= 1.6 for order 1, >= 3 for order 2 over dt = 0.1, 0.05, 0.025). Non-trivial: >=3 sites or a process tensor on a site; distinct = distinct JSON.")
TECHNIQUE = "Hypothesis property-based testing against dense reference propagation + differential execution modes + enumerated gate completion orders via a harness-owned executor"
LEVEL_TEXT = ("Generated chains from three exactly solvable families are compared at every step with dense references; the "
              "parallel back-ends are run in a fresh interpreter and, through a harness-owned executor, under generated and "
              "(for one layer pair of a 6-site chain) all gate completion orders.")
LEVEL_NOTE = ("Only completion orders through the executor interface are controlled; the real process pool's scheduling is run, "
              "not enumerated. Dense references limited to <= 5 sites (+ ancillas).")
ASSUMPTIONS = ["gates of one layer act on disjoint sites; map() must return results in input order"]


# separate PT-TEBD runs truncate singular values (epsrel 1e-10) and are reproducible to that level only, not bit-wise
RUN_TOL = 1e-8


def _ptrace(rho, dims, keep):
    n = len(dims)
    t = rho.reshape(dims + dims)
    letters = "abcdefghijklmnopqrstuvwxyz"
    row = [letters[i] for i in range(n)]
    col = [letters[n + i] if i in keep else letters[i] for i in range(n)]
    outl = [letters[i] for i in keep] + [letters[n + i] for i in keep]
    D = int(np.prod([dims[i] for i in keep]))
    return np.einsum("".join(row + col) + "->" + "".join(outl), t).reshape(D, D)


@st.composite
def s_exact(draw, tier):
    N = draw(st.integers(1, 4))
    fam = draw(st.sampled_from(["uncoupled", "two-site", "commuting"]))
    nmax = 6 if fam == "uncoupled" else 4
    ch = draw(chaingen.chain_spec(fam, n_min=2, n_max=nmax, dims=(2, 3) if fam != "commuting" else (2,), N=N))
    n = len(ch["dims"])
    if fam != "uncoupled" and int(np.prod(ch["dims"])) * int(np.prod([p["e"] for p in ch["pts"] if p])) > 96:
        ch["pts"] = [p if i == 0 else None for i, p in enumerate(ch["pts"])]
    pairs = [(i, j) for i in range(n) for j in range(i + 1, n)]
    rec = list(range(n)) + [draw(st.sampled_from(pairs))] + ([tuple(range(n))] if int(np.prod(ch["dims"])) <= 16 and n > 2 else [])
    return {"N": N, "dt": draw(st.sampled_from([0.05, 0.1, 0.3])), "order": draw(st.sampled_from([1, 2])),
            "chain": ch, "record": [list(r) if isinstance(r, tuple) else r for r in rec],
            "tempo_site": draw(st.integers(0, n - 1)) if (fam == "uncoupled" and N >= 2 and draw(st.booleans())) else None,
            "vectorised_input": draw(st.booleans())}


def _record(case):
    return [tuple(r) if isinstance(r, list) else r for r in case["record"]]


def run_exact(case):
    import oqupy
    out = Outcome()
    N, dt, spec = case["N"], case["dt"], case["chain"]
    ds = spec["dims"]
    n = len(ds)
    chain = chaingen.build_chain(spec)
    envs = chaingen.build_envs(spec, N, dt)
    pts = [None if e is None else e["pt"] for e in envs]
    rhos = chaingen.initial_states(spec)
    record = _record(case)
    tempo_site = case["tempo_site"]
    if tempo_site is not None and envs[tempo_site] is None and ds[tempo_site] == 2:
        out.label("pt-tempo-on-site")
        pts[tempo_site] = oqupy.pt_tempo_compute(
            oqupy.Bath(np.diag([0.5, -0.5]), oqupy.PowerLawSD(0.2, 1.0, 3.0, temperature=0.4)), 0.0, (N + 0.5) * dt,
            oqupy.TempoParameters(dt=dt, epsrel=1e-10), progress_type="silent")
    else:
        tempo_site = None
    mps_in = [r.reshape(-1) for r in rhos] if case.get("vectorised_input") else rhos     # rank-1 = vectorised rho
    teb = oqupy.PtTebd(oqupy.AugmentedMPS(mps_in), chain, pts,
                       oqupy.PtTebdParameters(dt=dt, epsrel=1e-12, order=case["order"]), dynamics_sites=record)
    res = teb.compute(N, progress_type="silent")
    out.nontrivial = n >= 3 or any(p is not None for p in pts)
    out.label("family=" + spec["family"], f"sites={n}", f"order={case['order']}",
              "pt-on-site" if any(e is not None for e in envs) else "no-ancilla-pt")
    out.check_close("norm", np.array(res["norm"]), np.ones(N + 1), 1e-9)
    out.check_close("times", np.array(res["time"]), dt * np.arange(N + 1), 1e-12)
    got = {s: np.array(res["dynamics"][s].states) for s in record}
    # partial-trace consistency among the recorded reduced density matrices
    for s in record:
        if isinstance(s, tuple) and len(s) >= 2:
            dims_s = [ds[i] for i in s]
            for pos, site in enumerate(s):
                if site in got:
                    red = np.array([_ptrace(r, dims_s, [pos]) for r in got[s]])
                    out.check_close("partial-trace", red, got[site], 1e-9, f"{s} -> {site}")
    fam = spec["family"]
    if fam == "uncoupled":
        sl = chaingen.site_liouvillians(spec)
        from scipy.linalg import expm
        for i in range(n):
            P = expm(sl[i] * dt / 2.0)
            if tempo_site == i:
                s_ = spec["sites"][i]
                system = oqupy.System(gens.herm(s_["H"]), gammas=[l["g"] for l in s_["lind"]],
                                      lindblad_operators=[gens.to_c(l["A"]) for l in s_["lind"]])
                want = np.array(oqupy.compute_dynamics(system, rhos[i], process_tensor=pts[i], progress_type="silent").states)
                tol = 1e-8
            else:
                want = A.ref_dynamics(ds[i], [envs[i]] if envs[i] is not None else [], rhos[i], lambda k: (P, P), N)
                tol = 1e-9
            out.check_close("uncoupled/site", got[i], want, tol, f"site {i}")
    else:
        want = chaingen.dense_reference(spec, envs, N, dt, record)
        for s in record:
            out.check_close(fam + "/dense", got[s], want[s], 1e-8, f"sites {s}")
    return out


# ---------------------------------------------------------------- execution modes in a fresh interpreter

CHILD = r'''
import sys, json
sys.path.insert(0, sys.argv[1])
import warnings; warnings.simplefilter("ignore")
import oqupy
pre = "concurrent.futures" in sys.modules
import numpy as np
case = json.load(open(sys.argv[2]))
mode = sys.argv[3]
c = lambda m: np.array(m)[..., 0] + 1j * np.array(m)[..., 1]
chain = oqupy.SystemChain(case["dims"])
for i, H in enumerate(case["siteH"]):
    chain.add_site_hamiltonian(i, c(H))
for i, g, Aop in case["sitelind"]:
    chain.add_site_dissipation(i, c(Aop), g)
for i, kind, coeff, Aop, Bop in case["nn"]:
    if kind == "ham":
        chain.add_nn_hamiltonian(i, coeff * c(Aop), c(Bop))
    else:
        chain.add_nn_dissipation(i, c(Aop), c(Bop), coeff)
n = len(case["dims"])
cfg = None if mode == "sequential" else {"parallel": mode}
teb = oqupy.PtTebd(oqupy.AugmentedMPS([c(r) for r in case["rhos"]]), chain, [None] * n,
                   oqupy.PtTebdParameters(dt=case["dt"], epsrel=1e-10, order=case["order"]),
                   dynamics_sites=list(range(n)), backend_config=cfg)
res = teb.compute(case["N"], progress_type="silent")
out = {"norm": [complex(x).real for x in res["norm"]], "futures_preimported": pre,
       "states": [[[[z.real, z.imag] for z in row] for row in st] for i in range(n) for st in res["dynamics"][i].states]}
json.dump(out, open(sys.argv[4], "w"))
'''


def _plain_chain(case):
    """explicit matrices for the child interpreter (which must import nothing but oqupy and numpy)"""
    spec = case["chain"]
    ri = lambda M: [[[float(np.real(z)), float(np.imag(z))] for z in row] for row in np.asarray(M)]
    d = {"dims": spec["dims"], "N": case["N"], "dt": case["dt"], "order": case["order"],
         "siteH": [ri(gens.herm(s["H"])) for s in spec["sites"]],
         "sitelind": [[i, l["g"], ri(gens.to_c(l["A"]))] for i, s in enumerate(spec["sites"]) for l in s["lind"]],
         "nn": [], "rhos": [ri(r) for r in chaingen.initial_states(spec)]}
    for i, terms in enumerate(spec["nn"]):
        for t in terms:
            Aop, Bop = chaingen._term_ops(t, 2, 2)
            d["nn"].append([i, "ham" if t["kind"] in ("ham", "zz") else "diss", t["c"], ri(Aop), ri(Bop)])
    return d


@st.composite
def s_modes(draw, tier):
    N = draw(st.integers(1, 2))
    ch = draw(chaingen.chain_spec("two-site", dims=(2,), N=N, allow_pt=False))
    ch2 = draw(chaingen.chain_spec("two-site", dims=(2,), N=N, allow_pt=False))
    n = draw(st.integers(2, 4))
    chain = {"family": "generic", "dims": [2] * n, "sites": (ch["sites"] + ch2["sites"])[:n],
             "nn": (ch["nn"] + ch2["nn"] + ch["nn"])[:n - 1], "pts": (ch["pts"] + ch2["pts"])[:n],
             "rhos": (ch["rhos"] + ch2["rhos"])[:n]}
    return {"N": N, "dt": 0.1, "order": draw(st.sampled_from([1, 2])), "chain": chain}


def run_modes(case):
    out = Outcome()
    tmp = tempfile.mkdtemp(prefix="verif_c10_")
    try:
        cf = os.path.join(tmp, "case.json")
        json.dump(_plain_chain(case), open(cf, "w"))
        script = os.path.join(tmp, "child.py")
        open(script, "w").write(CHILD)
        res = {}
        n = len(case["chain"]["dims"])
        out.nontrivial = True
        out.label(f"sites={n}")
        for mode in ("sequential", "multithread", "multiprocess"):
            of = os.path.join(tmp, mode + ".json")
            env = dict(os.environ, PYTHONHASHSEED="0", OMP_NUM_THREADS="1")
            r = subprocess.run([sys.executable, script, REPO_DIR, cf, mode, of], capture_output=True, text=True,
                               env=env, timeout=600)
            if r.returncode != 0:
                if mode == "sequential":
                    raise HarnessError("sequential child failed: " + r.stderr[-800:])
                last = [l for l in r.stderr.strip().splitlines() if l.strip()][-1] if r.stderr.strip() else "no stderr"
                out.fail("mode-unusable:" + mode, f"fresh interpreter, backend_config={{'parallel': '{mode}'}}: {last[:200]}")
                continue
            res[mode] = json.load(open(of))
            if res[mode].get("futures_preimported"):
                out.label("concurrent.futures-loaded-after-import-oqupy")
        base = res.get("sequential")
        for mode in ("multithread", "multiprocess"):
            if mode in res:
                a = np.array(res[mode]["states"])
                b = np.array(base["states"])
                out.check_close("mode-differs:" + mode, a, b, RUN_TOL, f"{mode} vs sequential")
                out.check_close("mode-norm:" + mode, np.array(res[mode]["norm"]), np.array(base["norm"]), RUN_TOL)
        return out
    finally:
        import shutil
        shutil.rmtree(tmp, ignore_errors=True)


# ---------------------------------------------------------------- completion orders through a harness-owned executor

def _six_site_spec():
    sites = []
    for i in range(6):
        sites.append({"H": [[[0.5 * ((i % 3) - 1), 0.0], [0.25, 0.25 * (i % 2)]], [[0.25, -0.25 * (i % 2)], [-0.5, 0.0]]],
                      "lind": [{"g": 0.2, "A": [[[0, 0], [1, 0]], [[0, 0], [0, 0]]]}] if i % 2 == 0 else []})
    nn = []
    for i in range(5):
        nn.append([{"kind": "ham", "c": 0.5, "A": [[[0, 0], [1, 0]], [[1, 0], [0, 0]]], "B": [[[0, 0], [1, 0]], [[1, 0], [0, 0]]]},
                   {"kind": "ham", "c": 0.25 * (1 + i % 2), "A": [[[1, 0], [0, 0]], [[0, 0], [-1, 0]]], "B": [[[0, 0], [0, -1]], [[0, 1], [0, 0]]]}])
    rhos = [[[[1.0, 0.0], [0.5, 0.25 * (i % 3)]], [[0.0, 0.5], [0.5 * (i % 2), 0.0]]] for i in range(6)]
    return {"family": "generic", "dims": [2] * 6, "sites": sites, "nn": nn, "pts": [None] * 6, "rhos": rhos}


def sched_cases(tier):
    cases = []
    for p_even in itertools.permutations(range(3)):
        for p_odd in itertools.permutations(range(2)):
            cases.append({"kind": "all-orders-one-layer-pair", "orders": [list(p_even), list(p_odd)], "N": 1, "order": 1})
    return cases


@st.composite
def s_sched(draw, tier):
    N = draw(st.integers(1, 2))
    order = draw(st.sampled_from([1, 2]))
    nb = N * 2 * (2 if order == 1 else 4)
    orders = [list(draw(st.permutations([0, 1, 2]))) for _ in range(nb)]
    return {"kind": "generated", "orders": orders, "N": N, "order": order, "mode": draw(st.sampled_from(["multithread", "multiprocess"]))}


def run_sched(case):
    import oqupy
    import oqupy.backends.pt_tebd_backend as B
    out = Outcome()
    spec = _six_site_spec()
    chain = chaingen.build_chain(spec)
    rhos = chaingen.initial_states(spec)
    N = case["N"]
    par = oqupy.PtTebdParameters(dt=0.1, epsrel=1e-10, order=case["order"])
    rec = list(range(6))
    base = oqupy.PtTebd(oqupy.AugmentedMPS(rhos), chain, [None] * 6, par, dynamics_sites=rec).compute(N, progress_type="silent")
    pe = PermutingExecutors(case["orders"])
    saved = B.concurrent
    B.concurrent = pe.module
    try:
        r = oqupy.PtTebd(oqupy.AugmentedMPS(rhos), chain, [None] * 6, par, dynamics_sites=rec,
                         backend_config={"parallel": case.get("mode", "multithread")}).compute(N, progress_type="silent")
    finally:
        B.concurrent = saved
    nonid = sum(1 for (_, n, o) in pe.log if o != list(range(n)))
    out.nontrivial = nonid > 0
    out.label(case["kind"], f"permuted-batches={min(nonid, 9)}", f"batches={len(pe.log)}")
    if len(pe.log) == 0:
        out.fail("executor-not-used", "the parallel back-end never used the executor")
    for i in rec:
        out.check_close("completion-order", np.array(r["dynamics"][i].states), np.array(base["dynamics"][i].states), RUN_TOL,
                        f"site {i}")
    out.check_close("completion-order/norm", np.array(r["norm"]), np.array(base["norm"]), RUN_TOL)
    return out


# ---------------------------------------------------------------- Trotter order (convergence-rate relation)

@st.composite
def s_trotter(draw, tier):
    n = draw(st.integers(3, 4))
    ch = draw(chaingen.chain_spec("two-site", dims=(2,), N=4, allow_pt=False))
    ch2 = draw(chaingen.chain_spec("two-site", dims=(2,), N=4, allow_pt=False))
    chain = {"family": "generic", "dims": [2] * n, "sites": (ch["sites"] + ch2["sites"])[:n],
             "nn": (ch["nn"] + ch2["nn"] + ch["nn"])[:n - 1], "pts": [None] * n, "rhos": (ch["rhos"] + ch2["rhos"])[:n]}
    return {"chain": chain, "order": draw(st.sampled_from([1, 2, 2]))}


def run_trotter(case):
    """metamorphic relation for non-commuting chains (no exact answer at finite dt): halving dt must reduce the
    deviation from the dense propagation by ~2 (order 1) or ~4 (order 2)."""
    import oqupy
    from scipy.linalg import expm
    from vlib.refs import chain as RC
    out = Outcome()
    spec = case["chain"]
    ds = spec["dims"]
    n = len(ds)
    chain = chaingen.build_chain(spec)
    rhos = chaingen.initial_states(spec)
    L = RC.full_liouvillian(ds, chaingen.site_liouvillians(spec), chaingen.nn_liouvillians(spec))
    T = 0.4
    exact = RC.vec_to_rho(expm(L * T) @ RC.product_vec(rhos), ds)
    errs = []
    for dt in (0.1, 0.05, 0.025):
        N = int(round(T / dt))
        teb = oqupy.PtTebd(oqupy.AugmentedMPS(rhos), chain, [None] * n,
                           oqupy.PtTebdParameters(dt=dt, epsrel=1e-12, order=case["order"]), dynamics_sites=[tuple(range(n))])
        r = teb.compute(N, progress_type="silent")
        errs.append(float(np.abs(np.array(r["dynamics"][tuple(range(n))].states)[-1] - exact).max()))
    out.nontrivial = errs[0] > 1e-6
    out.label(f"order={case['order']}", f"sites={n}", "splitting-error-visible" if errs[0] > 1e-6 else "commuting-by-chance")
    if errs[0] > 1e-6:
        r1 = errs[0] / max(errs[1], 1e-300)
        r2 = errs[1] / max(errs[2], 1e-300)
        out.metric(f"order{case['order']}/ratio-min", -min(r1, r2))
        need = 3.0 if case["order"] == 2 else 1.6
        if errs[1] > 1e-9 and min(r1, r2) < need:
            out.fail(f"trotter-order-{case['order']}-convergence", f"errors at dt=0.1,0.05,0.025: {errs[0]:.3e}, {errs[1]:.3e}, {errs[2]:.3e} "
                     f"(ratios {r1:.2f}, {r2:.2f}; expected about {2 ** case['order']})")
    return out


def subs(tier):
    return [
        Sub("trotter-order", run_trotter, strategy=s_trotter, budget={"quick": 64, "thorough": 600}),
        Sub("exact", run_exact, strategy=s_exact, budget={"quick": 240, "thorough": 2000}),
        Sub("fresh-interpreter", run_modes, strategy=s_modes, budget={"quick": 16, "thorough": 160}),
        Sub("all-orders", run_sched, cases=sched_cases, exhaustive=True, budget={"quick": 12, "thorough": 12}),
        Sub("generated-orders", run_sched, strategy=s_sched, budget={"quick": 48, "thorough": 480}),
    ]
