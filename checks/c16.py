"""C16 - process tensors survive export, import and file-backed computation unchanged."""
import os
import shutil
import tempfile

import numpy as np
from hypothesis import strategies as st

from vlib import ancgen, gens, sysgen, tempogen
from vlib.runner import Outcome, Sub

ID = "C16"
LEVEL = "exploration"
RULE = ("Hypothesis-generated process tensors: hand-built from ancilla environments (rank-4, rank-3, Liouville-rotated with "
        "transforms, Hilbert-rotated rank-3 with transforms, with and without dt, lengths 1..8, bond dimension 1..9) and "
        "PT-TEMPO tensors (diagonal and rotated coupling), printable unicode names/descriptions; export -> import as "
        "'file' and as 'simple' (and re-export of the file object; 1/3 of the exports overwrite a file that holds another tensor of other length and "
        "time step); PT-TEMPO writing directly to a file vs in memory. "
        "Oracle: the original object - len, dt, dimension, transforms, name, description, every MPO tensor (transformed and "
        "raw), every cap, bond dimensions, initial tensor None (bitwise for stored data) - and identical results (1e-12) in "
        "every consumer (compute_dynamics, compute_correlations, state_gradient, PtTebd), alone and (1/3 of the cases) "
        "together with a second, different exported/imported process tensor as a second environment / second chain site, "
        "with alternating reads from the two imported objects. Non-trivial: length >= 2 and some "
        "bond dimension >= 2; distinct = distinct canonical JSON.")
TECHNIQUE = "Hypothesis property-based round-trip testing (export/import) with differential consumers"
LEVEL_TEXT = ("Generated tensors are exported and re-imported in both import types; all stored content must be bit-identical "
              "and every consumer must return identical results with the re-imported object; file-backed PT-TEMPO is "
              "compared with the in-memory computation.")
LEVEL_NOTE = ("Raw (untransformed) rank-3 tensors are compared after delta expansion on both sides because the in-memory class "
              "expands them even for transformed=False (accessor difference, not loss of content). HDF5 strings exclude NUL.")
ASSUMPTIONS = ["names/descriptions are printable unicode without NUL (an h5py restriction)"]

TEXT = st.text(alphabet=st.characters(blacklist_categories=("Cs", "Cc")), min_size=0, max_size=12)


@st.composite
def s_case(draw, tier):
    kind = draw(st.sampled_from(["ancilla", "ancilla", "pt-tempo"]))
    c = {"kind": kind, "name": draw(st.one_of(st.none(), TEXT)), "description": draw(st.one_of(st.none(), TEXT)),
         "import_type": draw(st.sampled_from(["file", "simple", None])),
         "consumer": draw(st.sampled_from(["dynamics", "correlations", "gradient", "tebd", "none"])),
         "reexport": draw(st.booleans()), "rho0": draw(gens.dm_spec(2)), "H": draw(gens.herm_spec(2, 1, 2))}
    if kind == "ancilla":
        N = draw(st.integers(1, 8))
        c.update(N=N, env=draw(ancgen.env_spec(2, N, e_max=3)), dt=draw(st.sampled_from([None, 0.1, 0.25])))
    else:
        c.update(bath=draw(tempogen.bath_spec(2, custom_weight=0.0, temps=[0.0, 0.5], zetas=[1.0, 3.0])),
                 par=draw(tempogen.params_spec(2, tier, n_min=2, n_max=6, eps=[1e-8])),
                 direct_file=draw(st.booleans()))
        N = c["par"]["N"]
    # a second, different process tensor of the same length that is exported/imported too and used TOGETHER with the first
    # (several environments in one computation; alternating reads from two open files)
    if draw(st.integers(0, 2)) == 0:
        c["companion"] = draw(ancgen.env_spec(2, N, e_max=3))
    # the export goes to a name that already holds ANOTHER process tensor (other length, other / no dt) and overwrites it
    if draw(st.integers(0, 2)) == 0:
        c["overwrite_over"] = {"env": draw(ancgen.env_spec(2, 3, e_max=2)), "dt": draw(st.sampled_from([None, 0.05, 0.4]))}
    return c


def _expand(t, d2):
    if t is not None and t.ndim == 3:
        return np.einsum("abi,ij->abij", t, np.eye(d2))
    return t


def _same(out, tag, a, b):
    if a is None or b is None:
        if not (a is None and b is None):
            out.fail(tag, f"one side is None: {type(a).__name__} vs {type(b).__name__}")
        return
    a, b = np.asarray(a), np.asarray(b)
    if a.shape != b.shape or not np.array_equal(a, b):
        out.fail(tag, f"not bit-identical (shapes {a.shape} vs {b.shape})")


def compare_pts(out, tag, orig, new, d=2):
    if len(new) != len(orig):
        out.fail(tag + "/len", f"{len(new)} vs {len(orig)}")
        return
    if (orig.dt is None) != (new.dt is None) or (orig.dt is not None and float(new.dt) != float(orig.dt)):
        out.fail(tag + "/dt", f"{new.dt!r} vs {orig.dt!r}")
    if new.hilbert_space_dimension != orig.hilbert_space_dimension:
        out.fail(tag + "/dimension", "")
    _same(out, tag + "/transform_in", orig.transform_in, new.transform_in)
    _same(out, tag + "/transform_out", orig.transform_out, new.transform_out)
    if new.name != orig.name:
        out.fail(tag + "/name", f"{new.name!r} vs {orig.name!r}")
    if new.description != orig.description:
        out.fail(tag + "/description", f"{new.description!r} vs {orig.description!r}")
    it = new.get_initial_tensor()
    if it is not None:
        out.fail(tag + "/initial-tensor", f"initial tensor is {it!r}, expected None")
    for k in range(len(orig)):
        _same(out, tag + "/mpo", orig.get_mpo_tensor(k), new.get_mpo_tensor(k))
        _same(out, tag + "/mpo-raw", _expand(orig.get_mpo_tensor(k, transformed=False), d * d),
              _expand(new.get_mpo_tensor(k, transformed=False), d * d))
    for k in range(len(orig) + 1):
        _same(out, tag + "/cap", orig.get_cap_tensor(k), new.get_cap_tensor(k))
    if not np.array_equal(np.asarray(orig.get_bond_dimensions()), np.asarray(new.get_bond_dimensions())):
        out.fail(tag + "/bond-dimensions", f"{new.get_bond_dimensions()} vs {orig.get_bond_dimensions()}")


def probe_pt(pt, nprobes=4):
    """gauge-invariant content: for fixed operator sequences X_k contract the first n MPO tensors with X_k on the
    (in, out) legs and close with cap n; returns array [probe, n]"""
    N = len(pt)
    d2 = pt.hilbert_space_dimension ** 2
    i, j = np.meshgrid(np.arange(d2), np.arange(d2), indexing="ij")
    res = np.zeros((nprobes, N), dtype=complex)
    for q in range(nprobes):
        v = np.ones(1, dtype=complex)
        for k in range(N):
            X = np.cos(1.0 + i + 2.0 * j + 3.0 * k + 5.0 * q) + 1j * np.sin(0.5 + 2.0 * i - j + k * q)
            M = pt.get_mpo_tensor(k)
            v = np.einsum("a,abio,io->b", v, M, X)
            res[q, k] = v @ pt.get_cap_tensor(k + 1)
    return res


def consume(kind, pt, H, rho0, dt, comp=None):
    import oqupy
    from oqupy import operators
    N = len(pt)
    system = oqupy.System(H)
    kw = dict(progress_type="silent")
    pts = pt if comp is None else [pt, comp]
    if kind == "dynamics":
        return np.array(oqupy.compute_dynamics(system, rho0, process_tensor=pts, dt=dt if pt.dt is None else None, **kw).states)
    if kind == "correlations":
        # compute_correlations takes exactly one process tensor
        return np.asarray(oqupy.compute_correlations(system, pt, operators.sigma("x"), operators.sigma("z"),
                                                     slice(None), slice(None), initial_state=rho0,
                                                     dt=dt if pt.dt is None else None, **kw)[1])
    if kind == "gradient":
        if pt.dt is None:
            return None            # state_gradient takes the time step from the tensor
        sx = operators.sigma("x")
        psys = oqupy.ParameterizedSystem(lambda u: 0.5 * u * sx + H)
        params = np.linspace(0.1, 0.8, 2 * N).reshape(2 * N, 1)
        return np.asarray(oqupy.state_gradient(psys, rho0, rho0.T.copy(), [pt] if comp is None else [pt, comp], params,
                                               **kw)["gradient"])
    if kind == "tebd":
        sx = operators.sigma("x")
        chain = oqupy.SystemChain([2, 2])
        chain.add_site_hamiltonian(0, H)
        chain.add_nn_hamiltonian(0, sx, sx)
        r = oqupy.PtTebd(oqupy.AugmentedMPS([rho0, rho0]), chain, [pt, comp],
                         oqupy.PtTebdParameters(dt, 1e-10, 2), dynamics_sites=[0, 1]).compute(N, **kw)
        return np.concatenate([np.array(r["dynamics"][0].states), np.array(r["dynamics"][1].states)])
    return None


def run_case(case):
    import oqupy
    out = Outcome()
    tmp = tempfile.mkdtemp(prefix="verif_c16_")
    opened = []
    try:
        H = gens.herm(case["H"])
        rho0 = gens.build_dm(case["rho0"])
        if case["kind"] == "ancilla":
            N, dt = case["N"], case["dt"]
            env = ancgen.build_env(case["env"], 2, N, dt=dt, name=case["name"], description=case["description"])
            orig = env["pt"]
            out.label("store=" + env["store"], "dt=None" if dt is None else "dt")
            use_dt = 0.1 if dt is None else dt
            direct = None
        else:
            p, b = case["par"], case["bath"]
            bath, sd, D, O, V = tempogen.build_bath(b, p, 2)
            par = tempogen.build_params(p)
            t_end = tempogen.end_time(p)
            orig = oqupy.pt_tempo_compute(bath, 0.0, t_end, par, name=case["name"], description=case["description"],
                                          progress_type="silent")
            out.label("pt-tempo-rotated" if orig.transform_in is not None else "pt-tempo-diagonal")
            use_dt = p["dt"]
            direct = None
            if case["direct_file"]:
                out.label("direct-file")
                f2 = os.path.join(tmp, "direct.hdf5")
                kw_ow = {}
                if case.get("overwrite_over"):
                    ow = case["overwrite_over"]
                    ancgen.build_env(ow["env"], 2, 3, dt=ow["dt"], name="previous content", description="old")["pt"].export(f2)
                    kw_ow = {"overwrite": True}
                direct = oqupy.pt_tempo_compute(bath, 0.0, t_end, par, process_tensor_file=f2, name=case["name"],
                                                description=case["description"], progress_type="silent", **kw_ow)
                opened.append(direct)
        bd = np.asarray(orig.get_bond_dimensions())
        out.nontrivial = len(orig) >= 2 and bd.max() >= 2
        out.label("import=" + str(case["import_type"]), "consumer=" + case["consumer"], f"maxbond={int(min(bd.max(), 9))}")
        fn = os.path.join(tmp, "pt.hdf5")
        if case.get("overwrite_over"):
            out.label("export-overwrites-another-tensor")
            ow = case["overwrite_over"]
            ancgen.build_env(ow["env"], 2, 3, dt=ow["dt"], name="previous content", description="old")["pt"].export(fn)
            orig.export(fn, overwrite=True)
        else:
            orig.export(fn)
        new = oqupy.import_process_tensor(fn, case["import_type"])
        opened.append(new)
        compare_pts(out, "roundtrip", orig, new)
        if case["reexport"] and hasattr(new, "export"):
            out.label("re-export")
            fn2 = os.path.join(tmp, "pt2.hdf5")
            new.export(fn2)
            again = oqupy.import_process_tensor(fn2, "file")
            opened.append(again)
            compare_pts(out, "re-export", orig, again)
        comp_o = comp_n = None
        if case.get("companion") is not None and not out.fails:
            out.label("with-companion")
            comp_o = ancgen.build_env(case["companion"], 2, len(orig), dt=orig.dt)["pt"]
            fn3 = os.path.join(tmp, "companion.hdf5")
            comp_o.export(fn3)
            comp_n = oqupy.import_process_tensor(fn3, case["import_type"])
            opened.append(comp_n)
            # alternating reads from the two imported objects
            for k in range(len(orig)):
                a1, c1 = new.get_mpo_tensor(k), comp_n.get_mpo_tensor(k)
                a2 = new.get_mpo_tensor(k)
                _same(out, "alternating/mpo", orig.get_mpo_tensor(k), a1)
                _same(out, "alternating/mpo-companion", comp_o.get_mpo_tensor(k), c1)
                _same(out, "alternating/mpo", orig.get_mpo_tensor(k), a2)
                _same(out, "alternating/cap", orig.get_cap_tensor(k + 1), new.get_cap_tensor(k + 1))
                _same(out, "alternating/cap-companion", comp_o.get_cap_tensor(k + 1), comp_n.get_cap_tensor(k + 1))
        if direct is not None:
            # same computation, two storage back-ends: tensors agree to rounding
            if len(direct) != len(orig):
                out.fail("direct-file/len", f"{len(direct)} vs {len(orig)}")
            else:
                # two runs of the algorithm may differ by a gauge on the bonds (signs of singular vectors), so the
                # comparison is gauge invariant: multilinear probes of every prefix closed with its cap
                if (direct.dt is None) != (orig.dt is None) or (orig.dt is not None and float(direct.dt) != float(orig.dt)):
                    out.fail("direct-file/dt", f"{direct.dt!r} vs {orig.dt!r}")
                if direct.name != orig.name or direct.description != orig.description:
                    out.fail("direct-file/name-description", f"{direct.name!r}/{direct.description!r} vs {orig.name!r}/{orig.description!r}")
                pa, pb = probe_pt(orig), probe_pt(direct)
                ttol = 1000.0 * (len(orig) + 1) * 1e-8 + 1e-7      # two separate truncating runs
                out.check_close("direct-file/probes", pb, pa, ttol * max(1.0, float(np.abs(pa).max())),
                                "gauge-invariant probes of the process tensor")
                if not np.array_equal(np.asarray(direct.get_bond_dimensions()), np.asarray(orig.get_bond_dimensions())):
                    out.fail("direct-file/bond-dimensions", f"{direct.get_bond_dimensions()} vs {orig.get_bond_dimensions()}")
                for kind in ("dynamics", "correlations"):
                    a = consume(kind, orig, H, rho0, use_dt)
                    b_ = consume(kind, direct, H, rho0, use_dt)
                    out.check_close("direct-file/" + kind, np.nan_to_num(b_), np.nan_to_num(a), ttol)
        if case["consumer"] != "none" and not out.fails:
            a = consume(case["consumer"], orig, H, rho0, use_dt, comp_o)
            b_ = consume(case["consumer"], new, H, rho0, use_dt, comp_n)
            if a is not None:
                if np.isnan(a).any():
                    if not np.array_equal(np.isnan(a), np.isnan(b_)):
                        out.fail("consumer/" + case["consumer"], "NaN pattern differs")
                    a, b_ = np.nan_to_num(a), np.nan_to_num(b_)
                ctol = 1e-8 if case["consumer"] == "tebd" else 1e-12      # PtTebd truncates (epsrel 1e-10): not bit-reproducible
                out.check_close("consumer/" + case["consumer"], b_, a, ctol * max(1.0, float(np.abs(a).max())))
        return out
    finally:
        for o in opened:
            try:
                if hasattr(o, "close"):
                    o.close()
            except Exception:
                pass
        shutil.rmtree(tmp, ignore_errors=True)


def subs(tier):
    return [Sub("roundtrip", run_case, strategy=s_case, budget={"quick": 640, "thorough": 6000})]
