"""C08 - the adjoint gradient equals the derivative of the objective."""
import numpy as np
from hypothesis import strategies as st
from scipy.linalg import expm, expm_frechet

from vlib import ancgen, gens
from vlib.refs import anc as A
from vlib.runner import Outcome, Sub

ID = "C08"
LEVEL = "exploration"
RULE = ("Hypothesis-generated ParameterizedSystems with M=1..3 parameters (H linear in the parameters, with products and sines "
        "of parameters), optional parameter-dependent rates and Lindblad operators, N=1..5 steps, parameter tables (2N x M) on "
        "a grid, initial states, linear targets (arrays) and callable target derivatives (non-linear objective), 1..2 "
        "environments mixing PT-TEMPO tensors and exact ancilla tensors (incl. pairs that do not commute on the system), "
        "numerically differentiated and user-supplied (expm_frechet) propagator derivatives. Oracle: independent forward "
        "contraction (R-fwd) of the objective Z, differentiated by Richardson-extrapolated central finite differences "
        "(relative tolerance 1e-6 of max|grad| + 1e-9); reported dynamics/final state equal the forward pass at every step "
        "(1e-10). Non-trivial: gradient norm > 1e-3 and parameters not constant in time; distinct = distinct canonical JSON.")
TECHNIQUE = "Hypothesis property-based testing: adjoint gradient vs finite differences of an independent forward model"
LEVEL_TEXT = ("The adjoint gradient returned by state_gradient is compared entry by entry with Richardson finite differences of an "
              "independently contracted objective, for generated systems, targets and one or two environments; the reported "
              "dynamics are compared with the same forward pass.")
LEVEL_NOTE = "Finite-difference oracle accurate to ~1e-9 relative (calibrated, DESIGN section 6); sizes N<=5, M<=3, d<=3."
ASSUMPTIONS = ["objective Z = sum(target_derivative * rho_final) for array targets; callable targets return dZ/drho_final"]


@st.composite
def s_case(draw, tier):
    d = draw(st.sampled_from([2, 2, 3]))
    N = draw(st.integers(1, 5 if tier == "quick" else 6))
    M = draw(st.integers(1, 3))
    nenv = draw(st.sampled_from([1, 1, 2]))
    envs = []
    for _ in range(nenv):
        if d == 2 and N >= 2 and draw(st.integers(0, 2)) == 0:
            envs.append({"type": "tempo", "axis": draw(st.sampled_from(["z", "x", "y"])),
                         "alpha": draw(st.sampled_from([0.1, 0.3])), "T": draw(st.sampled_from([0.0, 0.4]))})
        else:
            envs.append({"type": "anc", "spec": draw(ancgen.env_spec(d, N, allow_transforms=True, e_max=3 if nenv == 1 else 2))})
    lind = draw(st.booleans())
    return {"d": d, "N": N, "M": M, "dt": draw(st.sampled_from([0.05, 0.2, 0.5])),
            "A": [draw(gens.herm_spec(d, 1, 2)) for _ in range(M + 1)],
            "nonlinear": draw(st.booleans()), "lind": lind,
            "L": draw(gens.cmatrix(d, d, 1, 2)), "ldep": draw(st.booleans()), "gdep": draw(st.booleans()),
            "params": draw(gens.rmatrix(2 * N, M, 2, 4)), "rho0": draw(gens.dm_spec(d)),
            "target": draw(gens.cmatrix(d, d, 1, 2)), "callable_target": draw(st.booleans()),
            "user_derivs": draw(st.booleans()), "envs": envs, "t0": draw(st.sampled_from([0.0, 0.6])),
            # the same ParameterizedSystem object has been used before, with the same parameter table and process tensors of
            # another time step (a time-step convergence study)
            "warmup_dt_factor": draw(st.sampled_from([None, None, 2.0, 0.5]))}


def _model(case):
    """python callables H(*p), gamma(*p), Lop(*p) with an explicit signature of M arguments"""
    d, M = case["d"], case["M"]
    As = [gens.herm(a) for a in case["A"]]
    Lm = gens.to_c(case["L"])
    nl = case["nonlinear"]

    def H_(p):
        if M == 1:
            return As[0] + p[0] * As[1] + (0.3 * p[0] ** 2 * As[0] if nl else 0)
        if M == 2:
            return As[0] + p[0] * As[1] + p[1] * As[2] + (0.3 * p[0] * p[1] * As[1] if nl else 0)
        return As[0] + p[0] * As[1] + (np.sin(p[1]) if nl else p[1]) * As[2] + p[2] * As[3]

    def g_(p):
        return 0.1 + (0.05 * p[-1] ** 2 if case["gdep"] else 0.0)

    def L_(p):
        return Lm * (1 + 0.2 * p[0] if case["ldep"] else 1.0)
    if M == 1:
        return (lambda u: H_([u])), (lambda u: g_([u])), (lambda u: L_([u])), H_, g_, L_
    if M == 2:
        return (lambda u, v: H_([u, v])), (lambda u, v: g_([u, v])), (lambda u, v: L_([u, v])), H_, g_, L_
    return (lambda u, v, w: H_([u, v, w])), (lambda u, v, w: g_([u, v, w])), (lambda u, v, w: L_([u, v, w])), H_, g_, L_


def _ref_liouvillian(case, H_, g_, L_, p):
    if case["lind"]:
        return A.lindblad_liouvillian(H_(p), [g_(p)], [L_(p)])
    return A.lindblad_liouvillian(H_(p))


def forward_states(pts, rho0, props, N, d):
    """R-fwd at every step: plain tensordot contraction with the caps of step k"""
    T = np.asarray(rho0, dtype=complex).reshape([1] * len(pts) + [d * d])
    out = []

    def cap(T, k):
        S = T
        for pt in pts:
            S = np.tensordot(S, pt.get_cap_tensor(k), axes=([0], [0]))
        return S.reshape(d, d)
    out.append(cap(T, 0))
    for k in range(N):
        P1, P2 = props(k)
        T = np.tensordot(T, P1.T, axes=([-1], [0]))
        for j, pt in enumerate(pts):
            Mt = pt.get_mpo_tensor(k)
            T = np.tensordot(T, Mt, axes=([j, -1], [0, 2]))
            T = np.moveaxis(T, -2, j)
        T = np.tensordot(T, P2.T, axes=([-1], [0]))
        out.append(cap(T, k + 1))
    return np.array(out)


def run_case(case):
    import oqupy
    from oqupy import operators
    out = Outcome()
    d, N, M, dt, t0 = case["d"], case["N"], case["M"], case["dt"], case["t0"]
    Hf, gf, Lf, H_, g_, L_ = _model(case)
    kw = {}
    if case["lind"]:
        kw = dict(gammas=[gf], lindblad_operators=[Lf])
    if case["user_derivs"]:
        def derivs(dt_, params):
            p = np.asarray(params, dtype=float)
            L0 = _ref_liouvillian(case, H_, g_, L_, list(p))
            res = []
            for i in range(M):
                h = 1e-3
                e = np.zeros(M)
                e[i] = h
                dL = (8 * (_ref_liouvillian(case, H_, g_, L_, list(p + e)) - _ref_liouvillian(case, H_, g_, L_, list(p - e)))
                      - (_ref_liouvillian(case, H_, g_, L_, list(p + 2 * e)) - _ref_liouvillian(case, H_, g_, L_, list(p - 2 * e)))) / (12 * h)
                res.append(expm_frechet(L0 * dt_ / 2.0, dL * dt_ / 2.0, compute_expm=False))
            return res
        kw["propagator_derivatives"] = derivs
    psys = oqupy.ParameterizedSystem(Hf, **kw)
    params = np.array(case["params"], dtype=float)
    rho0 = gens.build_dm(case["rho0"])
    W = gens.to_c(case["target"])
    pts = []
    kinds = []
    for e in case["envs"]:
        if e["type"] == "tempo":
            O = 0.5 * operators.sigma(e["axis"])
            pts.append(oqupy.pt_tempo_compute(oqupy.Bath(O, oqupy.PowerLawSD(e["alpha"], 1.0, 3.0, temperature=e["T"])),
                                              t0, t0 + (N + 0.5) * dt, oqupy.TempoParameters(dt=dt, epsrel=1e-9),
                                              progress_type="silent"))
            kinds.append("tempo")
        else:
            pts.append(ancgen.build_env(e["spec"], d, N, dt=dt)["pt"])
            kinds.append("anc")

    def props_for(p):
        cache = {}

        def props(k):
            if k not in cache:
                cache[k] = (expm(_ref_liouvillian(case, H_, g_, L_, list(p[2 * k])) * dt / 2.0),
                            expm(_ref_liouvillian(case, H_, g_, L_, list(p[2 * k + 1])) * dt / 2.0))
            return cache[k]
        return props

    def final(p):
        return A.forward_contract(pts, rho0, props_for(p), N, d)
    if case["callable_target"]:
        Zf = lambda rho: np.sum(W * rho) ** 2
        target = lambda rho: 2.0 * np.sum(W * rho) * W
    else:
        Zf = lambda rho: np.sum(W * rho)
        target = W.copy()
    Z = lambda p: Zf(final(p))
    wf = case.get("warmup_dt_factor")
    if wf and all(e["type"] == "anc" for e in case["envs"]):
        out.label("system-used-before-at-other-dt")
        pts_w = [ancgen.build_env(e["spec"], d, N, dt=dt * wf)["pt"] for e in case["envs"]]
        oqupy.state_gradient(psys, rho0, target, pts_w, params.copy(), start_time=t0, progress_type="silent")
    res = oqupy.state_gradient(psys, rho0, target, pts, params.copy(), start_time=t0, progress_type="silent")
    grad = np.asarray(res["gradient"])
    g1 = np.zeros((2 * N, M), dtype=complex)
    g2 = np.zeros_like(g1)
    for i in range(2 * N):
        for j in range(M):
            for h, gg in ((1e-3, g1), (5e-4, g2)):
                pp = params.copy()
                pp[i, j] += h
                pm = params.copy()
                pm[i, j] -= h
                gg[i, j] = (Z(pp) - Z(pm)) / (2 * h)
    gr = (4 * g2 - g1) / 3.0
    scale = float(np.abs(gr).max())
    const = bool(np.all(params == params[0]))
    out.nontrivial = scale > 1e-3 and not const
    out.label(f"envs={len(pts)}", "kinds=" + "+".join(kinds), f"M={M}", f"N={N}",
              "dissipator-depends-on-params" if case["lind"] and (case["gdep"] or case["ldep"]) else
              ("lindblad" if case["lind"] else "unitary-system"),
              "callable-target" if case["callable_target"] else "array-target",
              "user-derivatives" if case["user_derivs"] else "numeric-derivatives", "nonlinear-H" if case["nonlinear"] else "linear-H")
    if grad.shape != gr.shape:
        out.fail("gradient/shape", f"{grad.shape} vs {gr.shape}")
        return out
    rich = float(np.abs(g2 - g1).max())
    tol = 1e-6 * max(scale, 1e-3) + 1e-9 + 1e-2 * rich * 0  # Richardson error is O(h^4), far below tol
    out.check_close("gradient" + ("/2env" if len(pts) == 2 else ""), grad, gr, tol, "adjoint vs finite differences")
    fs = forward_states(pts, rho0, props_for(params), N, d)
    out.check_close("final-state", np.asarray(res["final_state"]), fs[-1], 1e-10)
    dyn = res["dynamics"]
    out.check_close("dynamics/states", np.array(dyn.states), fs, 1e-10)
    out.check_close("dynamics/times", np.array(dyn.times), t0 + dt * np.arange(N + 1), 1e-12 * (abs(t0) + 5))
    return out


def subs(tier):
    return [Sub("gradient", run_case, strategy=s_case, budget={"quick": 400, "thorough": 4000})]
