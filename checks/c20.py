"""C20 - results depend only on current inputs: no mutation, aliasing or stale state."""
import numpy as np
from hypothesis import strategies as st

from vlib import gens
from vlib.runner import Outcome, Sub

ID = "C20"
LEVEL = "exploration"
RULE = ("Histories as generated operation lists over a pool of shared objects (2 correlations objects - PowerLawSD / CustomSD -, "
        "baths built from them at different moments, systems, parameters, process tensors, caller arrays). Operations: "
        "change a public attribute of a correlations object (temperature, alpha, zeta, cutoff, cutoff_type, j_function; "
        "correlation_function of a third pool member, a CustomCorrelations object); "
        "evaluate correlation / spectral_density / eta_function / correlation_2d_integral on a pool member; build a Bath from "
        "a pool member; query a Bath built earlier; use an array obtained from oqupy.operators as scratch space and request it again; run a computation (TEMPO, PT-TEMPO, Gibbs, compute_dynamics, "
        "state_gradient, compute_correlations, PT-TEBD) with pool members and with caller arrays passed C-ordered, F-ordered, "
        "as strided views, read-only, or as transposed views; closed-system compute_dynamics / compute_dynamics_with_field "
        "included. Oracles: (0) a returned Dynamics does not change when the caller overwrites its input arrays after the call; (i) every caller array is bit-identical afterwards "
        "(data, shape, strides, flags); (ii) every result equals the same call on freshly constructed equal objects built "
        "from the current parameter values (1e-10, exact for pure functions); (iii) methods of one object mutually consistent "
        "with its current attributes; (iv) a Bath built earlier keeps answering with the values at its construction; (v) the "
        "same numbers in another memory layout give the same result and no exception. (fresh-process) a generated sequence of "
        "2-4 computations (TEMPO, PT-TEMPO, mean-field, Gibbs, PT-TEBD, gradient; d=2..3; unique on/off; different coupling "
        "operators) is run in one process and the last one is repeated in a fresh interpreter: equal within the truncation "
        "tolerance (catches process-wide caches). (shared-objects) one pool of composite objects per history - a SystemChain "
        "(2-4 sites; sites with no single-site term, a Hamiltonian, or Hamiltonian + dissipation; Hermitian nn couplings, "
        "optional nn dissipation), its AugmentedMPS initial state, PtTebdParameters, System, TimeDependentSystem, "
        "MeanFieldSystem (two systems), ParameterizedSystem, two Baths, TempoParameters, GibbsParameters, a Control, "
        "PT-TEMPO process tensors - used by a generated sequence of 2-9 calls (PtTebd, get_nn_full_liouvillians, "
        "MeanFieldTempo, compute_dynamics_with_field, Tempo, compute_dynamics, state_gradient, Gibbs); after every call the "
        "publicly readable state of every pooled object is bit-identical to before, list arguments are unchanged (same elements), and the result equals the same call on a "
        "freshly constructed equal pool. Non-trivial: the history re-uses an "
        "object after a computation or after an attribute change; distinct = distinct canonical JSON.")
TECHNIQUE = "model-based testing of histories: Hypothesis-generated operation sequences on shared objects against a model of 'freshly constructed equal objects', plus array-layout metamorphic relation and bitwise caller-array invariant"
LEVEL_TEXT = ("Generated histories of constructions, attribute updates, evaluations and computations on shared objects are replayed "
              "against fresh equal objects; caller arrays in five memory layouts are snapshotted before and after every call.")
LEVEL_NOTE = "Fresh-object replay is the model; pure functions are compared exactly (1e-12), separate runs of truncating computations within the truncation tolerance 4.1e-6 (they are not bit-reproducible, see RUN_TO_RUN_TOL)."
ASSUMPTIONS = ["public parameters are the constructor arguments exposed as attributes (temperature, alpha, zeta, cutoff, cutoff_type, j_function, correlation_function)"]

LAYOUTS = ["C", "F", "strided", "readonly", "T-of-T"]
# Two runs of a truncating (TEMPO-type) computation on bit-identical inputs are NOT bit-identical: the tensor-network
# back-end is only reproducible to rounding, and a singular value at the relative truncation threshold can flip
# (observed: the same Tempo call toggling between two results 5e-9 apart at epsrel 1e-8, within one process).
# Every comparison of two separate computations therefore uses the truncation tolerance 100 (N+1) epsrel + 1e-7.
RUN_TO_RUN_TOL = 100.0 * 4 * 1e-8 + 1e-7
ATTRS_PL = ["temperature", "alpha", "zeta", "cutoff", "cutoff_type"]
ATTRS_CU = ["temperature", "cutoff", "cutoff_type", "j_function"]
ATTRS_CC = ["correlation_function"]
VALUES = {"temperature": [0.0, 0.02, 0.5, 2.0], "alpha": [0.05, 0.2, 0.4], "zeta": [1.0, 2.0, 3.0], "cutoff": [1.0, 3.0, 5.0],
          "cutoff_type": ["hard", "exponential", "gaussian"], "j_function": [0, 1, 2], "correlation_function": [0, 1, 2]}
JFUNS = [lambda w: 0.2 * w, lambda w: 0.1 * w ** 2, lambda w: 0.3 * w / (1.0 + w * w)]
CFUNS = [lambda t: 0.2 * np.exp(-abs(t)) * (np.cos(t) - 0.5j * np.sin(t)), lambda t: 0.3 * np.exp(-2.0 * abs(t)) * (1.0 - 0.2j * np.sign(t) * abs(t)),
         lambda t: 0.1 * np.cos(1.3 * t) - 0.1j * np.sin(1.3 * t)]


OPERATOR_NAMES = [("sigma", n) for n in ("id", "x", "y", "z", "+", "-")] + \
                 [("spin_dm", n) for n in ("up", "down", "z+", "z-", "x+", "x-", "y+", "y-", "mixed")]


def layout(a, kind):
    a = np.array(a, dtype=complex if np.iscomplexobj(a) else float)
    if kind == "C":
        return np.ascontiguousarray(a)
    if kind == "F":
        return np.asfortranarray(a)
    if kind == "strided":
        big = np.zeros((2 * a.shape[0], 2 * a.shape[1]), dtype=a.dtype)
        big[::2, ::2] = a
        return big[::2, ::2]
    if kind == "readonly":
        b = np.ascontiguousarray(a).copy()
        b.setflags(write=False)
        return b
    return np.ascontiguousarray(a.T).T


def snap(x):
    return (x.tobytes(), x.shape, x.strides, bool(x.flags["WRITEABLE"]), bool(x.flags["C_CONTIGUOUS"]), bool(x.flags["F_CONTIGUOUS"]))


@st.composite
def s_case(draw, tier):
    n = draw(st.integers(3, 8 if tier == "quick" else 14))
    ops = []
    for _ in range(n):
        kind = draw(st.sampled_from(["set", "set", "eval", "eval", "bath", "eval-bath", "compute", "compute", "make-pt", "make-pt", "use-pt", "use-pt", "use-pt", "alt-system", "scratch-operator"]))
        c = draw(st.sampled_from([0, 1, 0, 1, 2]))
        if kind == "set":
            attr = draw(st.sampled_from([ATTRS_PL, ATTRS_CU, ATTRS_CC][c]))
            ops.append({"op": "set", "c": c, "attr": attr, "v": draw(st.integers(0, 3 if attr == "temperature" else 2))})
        elif kind == "eval":
            ops.append({"op": "eval", "c": c, "what": draw(st.sampled_from(["correlation", "spectral_density", "eta", "2d-triangle", "2d-square", "2d-rect"])),
                        "x": draw(st.sampled_from([0.1, 0.3, 0.7]))})
        elif kind == "bath":
            ops.append({"op": "bath", "c": c})
        elif kind == "eval-bath":
            ops.append({"op": "eval-bath", "b": draw(st.integers(0, 3)),
                        "what": draw(st.sampled_from(["correlation", "spectral_density", "2d-square"])), "x": draw(st.sampled_from([0.1, 0.3]))})
        elif kind == "scratch-operator":
            ops.append({"op": "scratch-operator", "which": draw(st.sampled_from(OPERATOR_NAMES))})
        elif kind == "alt-system":
            ops.append({"op": "alt-system", "variant": draw(st.sampled_from(["H", "-H", "H^T", "PHP", "2H"])),
                        "dt": draw(st.sampled_from([0.1, 0.1, 0.2]))})
        elif kind == "make-pt":
            ops.append({"op": "make-pt", "c": c, "rot": draw(st.booleans())})
        elif kind == "use-pt":
            ops.append({"op": "use-pt", "p": draw(st.integers(0, 3)),
                        "kind": draw(st.sampled_from(["dynamics", "correlations", "gradient", "pt-tebd", "tensors"])),
                        "layout": draw(st.sampled_from(LAYOUTS))})
        else:
            ops.append({"op": "compute", "c": c, "b": draw(st.integers(0, 3)), "use_bath": draw(st.booleans()),
                        "kind": draw(st.sampled_from(["tempo", "pt-tempo+dynamics", "gibbs", "gradient", "correlations", "pt-tebd",
                                                     "closed-dynamics", "closed-with-field"])),
                        "layout": draw(st.sampled_from(LAYOUTS))})
    return {"ops": ops, "rho0": draw(gens.dm_spec(2)), "H": draw(gens.herm_spec(2, 1, 2)),
            "T0": [draw(st.sampled_from([0.0, 0.02, 0.5])), draw(st.sampled_from([0.02, 0.5]))],
            "wc0": draw(st.sampled_from([3.0, 5.0]))}


def _fresh(params):
    import oqupy
    if params["type"] == "cc":
        return oqupy.CustomCorrelations(CFUNS[params["correlation_function"]])
    if params["type"] == "pl":
        return oqupy.PowerLawSD(alpha=params["alpha"], zeta=params["zeta"], cutoff=params["cutoff"],
                                cutoff_type=params["cutoff_type"], temperature=params["temperature"])
    return oqupy.CustomSD(JFUNS[params["j_function"]], cutoff=params["cutoff"], cutoff_type=params["cutoff_type"],
                          temperature=params["temperature"])


def _evaluate(c, what, x):
    if not hasattr(c, "spectral_density"):       # CustomCorrelations: no spectral density / eta function
        what = {"spectral_density": "correlation", "eta": "2d-triangle"}.get(what, what)
    if what == "correlation":
        return complex(c.correlation(x))
    if what == "spectral_density":
        return complex(c.spectral_density(x))
    if what == "eta":
        return complex(c.eta_function(x))
    if what == "2d-triangle":
        return complex(c.correlation_2d_integral(x, 0.0, shape="upper-triangle"))
    if what == "2d-square":
        return complex(c.correlation_2d_integral(x, 2 * x, shape="square"))
    return complex(c.correlation_2d_integral(x, 2 * x, 2 * x + 1.5 * x, shape="rectangle"))


_HELD = [None]      # re-reads the value from the result object of the last _compute call (None: nothing to re-read)


def _compute(kind, corr, bath, arrays, pooled=None):
    """returns a numeric result; arrays: dict rho0, H, O, target, params; pooled: (System, TempoParameters) objects
    shared by the whole history (None: fresh ones)"""
    import oqupy
    from oqupy import operators
    rho0, H, O = arrays["rho0"], arrays["H"], arrays["O"]
    _HELD[0] = None
    if bath is None:
        bath = oqupy.Bath(O, corr)
    par = oqupy.TempoParameters(dt=0.1, epsrel=1e-8, dkmax=2) if pooled is None else pooled[1]
    system = oqupy.System(H) if pooled is None else pooled[0]
    kw = dict(progress_type="silent")
    if kind == "tempo":
        dyn = oqupy.Tempo(system, bath, par, rho0, 0.0).compute(0.35, **kw)
        _HELD[0] = lambda: np.array(dyn.states)
        return _HELD[0]()
    if kind == "closed-dynamics":
        # no environment: the recorded initial state is the closest a result comes to the caller's own array
        dyn = oqupy.compute_dynamics(system, rho0, dt=0.1, num_steps=3, **kw)
        _HELD[0] = lambda: np.array(dyn.states)
        return _HELD[0]()
    if kind == "closed-with-field":
        sp, sm = operators.sigma("+"), operators.sigma("-")
        mfs = oqupy.MeanFieldSystem([oqupy.TimeDependentSystemWithField(lambda t, a: H + 0.3 * (a * sp + np.conj(a) * sm))],
                                    lambda t, states, a: -0.5j * a - 0.3j * np.trace(states[0] @ sm))
        dyn = oqupy.compute_dynamics_with_field(mfs, 0.3 + 0.1j, None, dt=0.1, num_steps=3, initial_state_list=[rho0], **kw)
        _HELD[0] = lambda: np.concatenate([np.array(dyn.system_dynamics[0].states).reshape(-1), np.asarray(dyn.fields).reshape(-1)])
        return _HELD[0]()
    if kind == "gibbs":
        T = getattr(bath.correlations, "temperature", 0.0)
        if T <= 0:
            return None
        return np.array(oqupy.gibbs_tempo_compute(system, bath, oqupy.GibbsParameters(4, 1e-8), **kw))
    pt = oqupy.pt_tempo_compute(bath, 0.0, 0.35, par, **kw)
    if kind == "pt-tempo+dynamics":
        dyn = oqupy.compute_dynamics(system, rho0, process_tensor=pt, **kw)
        _HELD[0] = lambda: np.array(dyn.states)
        return _HELD[0]()
    if kind == "correlations":
        return np.nan_to_num(np.asarray(oqupy.compute_correlations(system, pt, O, H, slice(None), slice(None),
                                                                   initial_state=rho0, **kw)[1]))
    if kind == "gradient":
        sx = operators.sigma("x")
        psys = oqupy.ParameterizedSystem(lambda u: 0.5 * u * sx)
        return np.asarray(oqupy.state_gradient(psys, rho0, arrays["target"], [pt], arrays["params"], **kw)["gradient"])
    if kind == "pt-tebd":
        sx = operators.sigma("x")
        chain = oqupy.SystemChain([2, 2])
        chain.add_site_hamiltonian(0, H)
        chain.add_nn_hamiltonian(0, sx, sx)
        r = oqupy.PtTebd(oqupy.AugmentedMPS([rho0, rho0]), chain, [pt, None], oqupy.PtTebdParameters(0.1, 1e-9, 2),
                         dynamics_sites=[0]).compute(3, **kw)
        return np.array(r["dynamics"][0].states)
    raise ValueError(kind)


def _make_pt(corr, rot):
    import oqupy
    from oqupy import operators
    O = np.diag([0.5, -0.5]).astype(complex) if not rot else 0.5 * operators.sigma("z") + 0.3 * operators.sigma("x")
    return oqupy.pt_tempo_compute(oqupy.Bath(O, corr), 0.0, 0.35, oqupy.TempoParameters(dt=0.1, epsrel=1e-8, dkmax=2),
                                  progress_type="silent")


def _use_pt(kind, pt, arrays):
    import oqupy
    from oqupy import operators
    if kind == "tensors":
        return np.concatenate([pt.get_mpo_tensor(k).reshape(-1) for k in range(len(pt))] +
                              [np.asarray(pt.get_cap_tensor(k)).reshape(-1) for k in range(len(pt) + 1)])
    rho0, H, O = arrays["rho0"], arrays["H"], arrays["O"]
    system = oqupy.System(H)
    kw = dict(progress_type="silent")
    if kind == "dynamics":
        return np.array(oqupy.compute_dynamics(system, rho0, process_tensor=pt, **kw).states)
    if kind == "correlations":
        return np.nan_to_num(np.asarray(oqupy.compute_correlations(system, pt, O, H, slice(None), slice(None),
                                                                   initial_state=rho0, **kw)[1]))
    if kind == "gradient":
        sx = operators.sigma("x")
        psys = oqupy.ParameterizedSystem(lambda u: 0.5 * u * sx)
        return np.asarray(oqupy.state_gradient(psys, rho0, arrays["target"], [pt], arrays["params"], **kw)["gradient"])
    sx = operators.sigma("x")
    chain = oqupy.SystemChain([2, 2])
    chain.add_site_hamiltonian(0, H)
    chain.add_nn_hamiltonian(0, sx, sx)
    r = oqupy.PtTebd(oqupy.AugmentedMPS([rho0, rho0]), chain, [pt, None], oqupy.PtTebdParameters(0.1, 1e-9, 2),
                     dynamics_sites=[0]).compute(3, **kw)
    return np.array(r["dynamics"][0].states)


def _arrays(src, lay):
    return {k: layout(v, lay) if v.ndim == 2 and v.shape[0] == v.shape[1] else
            (layout(np.hstack([v, v]), lay)[:, :1] if lay in ("F", "strided") else layout(v, "readonly" if lay == "readonly" else "C"))
            for k, v in src.items()}


def run_case(case):
    import oqupy
    out = Outcome()
    pts = []            # (process tensor, reference tensors at creation)
    pooled = (oqupy.System(gens.herm(case["H"])), oqupy.TempoParameters(dt=0.1, epsrel=1e-8, dkmax=2))
    params = [
        {"type": "pl", "alpha": 0.2, "zeta": 1.0, "cutoff": case.get("wc0", 3.0), "cutoff_type": "exponential",
         "temperature": case.get("T0", [0.5, 0.5])[0]},
        {"type": "cu", "j_function": 0, "cutoff": case.get("wc0", 3.0), "cutoff_type": "gaussian",
         "temperature": case.get("T0", [0.5, 0.5])[1]},
        {"type": "cc", "correlation_function": 0},
    ]
    corrs = [_fresh(p) for p in params]
    baths = []          # (bath object, snapshot of params, coupling operator)
    rho0 = gens.build_dm(case["rho0"])
    H = gens.herm(case["H"])
    O = np.diag([0.5, -0.5]).astype(complex)
    used = [False, False, False]
    reuse = False
    for i, op in enumerate(case["ops"]):
        kind = op["op"]
        if kind == "set":
            c = op["c"]
            # the object has been used before the change (warms every cache an implementation may keep)
            for what in ("correlation", "eta", "2d-triangle", "2d-square", "2d-rect"):
                for x in (0.1, 0.3):
                    _evaluate(corrs[c], what, x)
            v = VALUES[op["attr"]][op["v"]]
            if op["attr"] in ("j_function", "correlation_function"):
                fa, FUNS = op["attr"], (JFUNS if op["attr"] == "j_function" else CFUNS)
                # the replaced function object is released by the caller; the new function may then get the SAME id
                # (CPython re-uses the freed block at once) - provoked deliberately: an identity-keyed cache must not
                # take the new function for the old one (finding F-20d)
                old_id = id(getattr(corrs[c], fa))
                setattr(corrs[c], fa, np.vectorize(FUNS[v]))
                keep = []
                for _ in range(20):
                    cand = np.vectorize(FUNS[v])
                    if id(cand) == old_id:
                        setattr(corrs[c], fa, cand)
                        out.label("new-function-reuses-id-of-replaced-one")
                        break
                    keep.append(cand)
                del keep
            else:
                setattr(corrs[c], op["attr"], v)
            params[c] = dict(params[c], **{op["attr"]: v})
            used[c] = True
            out.label("set:" + op["attr"])
            # ... and is used again right after the change: every method must answer with the current values
            fresh = _fresh(params[c])
            for what in ("correlation", "spectral_density", "eta", "2d-triangle", "2d-square", "2d-rect"):
                for x in (0.1, 0.3):
                    got = _evaluate(corrs[c], what, x)
                    want = _evaluate(fresh, what, x)
                    if not abs(got - want) <= 1e-12 * max(1.0, abs(want)):
                        out.fail(f"stale-or-inconsistent:{what}:{params[c]['type']}:after-set-{op['attr']}",
                                 f"op {i}: after {op['attr']}={v}: {what}({x}) = {got:.8g}, fresh object gives {want:.8g}")
                        return out
            reuse = True
        elif kind == "eval":
            c = op["c"]
            reuse |= used[c]
            got = _evaluate(corrs[c], op["what"], op["x"])
            want = _evaluate(_fresh(params[c]), op["what"], op["x"])
            used[c] = True
            out.label("eval:" + op["what"])
            if not abs(got - want) <= 1e-12 * max(1.0, abs(want)):
                out.fail(f"stale-or-inconsistent:{op['what']}:{params[c]['type']}",
                         f"op {i}: {op['what']}({op['x']}) = {got:.8g}, fresh object with current parameters gives {want:.8g}")
                return out
        elif kind == "bath":
            c = op["c"]
            baths.append((oqupy.Bath(O, corrs[c]), dict(params[c])))
            used[c] = True
        elif kind == "eval-bath":
            if not baths:
                continue
            b, snap_p = baths[op["b"] % len(baths)]
            reuse = True
            got = _evaluate(b.correlations, op["what"], op["x"])
            want = _evaluate(_fresh(snap_p), op["what"], op["x"])
            out.label("eval-bath:" + op["what"])
            if not abs(got - want) <= 1e-12 * max(1.0, abs(want)):
                out.fail(f"bath-follows-later-changes:{op['what']}:{snap_p['type']}",
                         f"op {i}: bath.correlations.{op['what']}({op['x']}) = {got:.8g}, value at construction {want:.8g}")
                return out
        elif kind == "scratch-operator":
            # the caller uses an array it got from oqupy.operators as scratch space: the next request must still return
            # the documented matrix (the factory functions hand out fresh arrays)
            from oqupy import operators as _ops
            fn, name = op["which"]
            f = getattr(_ops, fn)
            try:
                a = f(name)
            except Exception:
                continue
            want = np.array(a, dtype=complex)
            if a.flags["WRITEABLE"]:
                a *= 0.5
                a[0, 0] += 3.0
            b = f(name)
            reuse = True
            out.label("scratch-operator")
            if not np.array_equal(np.asarray(b, dtype=complex), want):
                out.fail(f"operator-follows-callers-scratch-use:{fn}", f"op {i}: oqupy.operators.{fn}({name!r}) returns {np.asarray(b).tolist()} "
                         f"after the caller modified the array of an earlier call")
                return out
        elif kind == "alt-system":
            # other system objects with the same shape / norm / |entries| used in the same process: results must not
            # depend on what was computed before (reference: explicit unitary evolution, no library code)
            from scipy.linalg import expm
            P = np.array([[0, 1], [1, 0]], dtype=complex)
            Hv = {"H": H, "-H": -H, "H^T": H.T.copy(), "PHP": P @ H @ P, "2H": 2 * H}[op["variant"]]
            dyn = oqupy.compute_dynamics(oqupy.System(Hv), rho0, dt=op["dt"], num_steps=3, progress_type="silent")
            U = expm(-1j * Hv * op["dt"])
            want = [rho0]
            for _ in range(3):
                want.append(U @ want[-1] @ U.conj().T)
            reuse = True
            out.label("alt-system:" + op["variant"])
            if not np.abs(np.array(dyn.states) - np.array(want)).max() <= 1e-10:
                out.fail(f"depends-on-earlier-use:alt-system:{op['variant']}",
                         f"op {i}: closed-system dynamics of System({op['variant']}) deviate by "
                         f"{np.abs(np.array(dyn.states) - np.array(want)).max():.3e} from the explicit evolution")
                return out
        elif kind == "make-pt":
            c = op["c"]
            pt = _make_pt(corrs[c], op["rot"])
            pts.append((pt, _use_pt("tensors", pt, None).copy(), dict(params[c]), op["rot"]))
            used[c] = True
        elif kind == "use-pt":
            if not pts:
                continue
            pt, ref_t, p_snap, rot = pts[op["p"] % len(pts)]
            reuse = True
            lay = op["layout"]
            src = {"rho0": rho0, "H": H, "O": O, "target": rho0.T.copy(), "params": np.linspace(0.1, 0.8, 6).reshape(6, 1)}
            arrays = _arrays(src, lay)
            before = {k: snap(v) for k, v in arrays.items()}
            out.label("use-pt:" + op["kind"], "layout=" + lay)
            try:
                got = _use_pt(op["kind"], pt, arrays)
            except Exception as exc:
                out.fail(f"use-pt-raises:{op['kind']}:{lay}:{type(exc).__name__}", f"op {i}: {exc}")
                return out
            mutated = [k for k, v in arrays.items() if snap(v) != before[k]]
            if mutated:
                out.fail(f"caller-array-modified:{op['kind']}", f"op {i}: {mutated} changed (layout {lay})")
                return out
            now_t = _use_pt("tensors", pt, None)
            if now_t.shape != ref_t.shape or not np.array_equal(now_t, ref_t):
                out.fail(f"process-tensor-modified-by-use:{op['kind']}", f"op {i}: stored tensors of a pooled process tensor changed")
                return out
            if op["kind"] != "tensors":
                fresh_pt = _make_pt(_fresh(p_snap), rot)
                want = _use_pt(op["kind"], fresh_pt, {k: np.ascontiguousarray(np.array(v)) for k, v in src.items()})
                if got.shape != want.shape or not np.abs(got - want).max() <= RUN_TO_RUN_TOL * max(1.0, float(np.abs(want).max())):
                    out.fail(f"pooled-pt-differs-from-fresh:{op['kind']}",
                             f"op {i}: deviation {float(np.abs(got - want).max()) if got.shape == want.shape else float('nan'):.3e}")
                    return out
        else:
            c = op["c"]
            if op["use_bath"] and baths:
                b, p_used = baths[op["b"] % len(baths)]
            else:
                b, p_used = None, params[c]
            reuse |= used[c] or b is not None
            lay = op["layout"]
            src = {"rho0": rho0, "H": H, "O": O, "target": rho0.T.copy(),
                   "params": np.linspace(0.1, 0.8, 6).reshape(6, 1)}
            arrays = {k: layout(v, lay) if v.ndim == 2 and v.shape[0] == v.shape[1] else
                      (layout(np.hstack([v, v]), lay)[:, :1] if lay in ("F", "strided") else layout(v, "readonly" if lay == "readonly" else "C"))
                      for k, v in src.items()}
            before = {k: snap(v) for k, v in arrays.items()}
            out.label("compute:" + op["kind"], "layout=" + lay)
            try:
                got = _compute(op["kind"], corrs[c], b, arrays, pooled=pooled)
            except Exception as exc:
                import traceback
                tb = traceback.extract_tb(exc.__traceback__)
                inner = [f for f in tb if "/oqupy/" in f.filename.replace("\\", "/")]
                where = f"{inner[-1].name}" if inner else "?"
                out.fail(f"layout-raises:{op['kind']}:{lay}:{type(exc).__name__}@{where}" if lay != "C" else
                         f"raises:{op['kind']}:{type(exc).__name__}@{where}", f"op {i}: {exc}")
                return out
            mutated = [k for k, v in arrays.items() if snap(v) != before[k]]
            if mutated:
                out.fail(f"caller-array-modified:{op['kind']}", f"op {i}: {mutated} changed (layout {lay})")
                return out
            if got is None:
                continue
            if _HELD[0] is not None:
                # the caller re-uses its buffers after the call: a result that has been returned must not follow them
                reread = _HELD[0]
                wrote = False
                for v in arrays.values():
                    if v.flags["WRITEABLE"]:
                        v[...] = 7.25
                        wrote = True
                if wrote:
                    out.label("buffers-overwritten-after-call")
                    again = reread()
                    if again.shape != got.shape or not np.array_equal(again, got):
                        out.fail(f"result-follows-caller-buffer:{op['kind']}",
                                 f"op {i}: the returned result changed when the caller overwrote its input arrays after the call (layout {lay})")
                        return out
            fresh_arrays = {k: np.ascontiguousarray(np.array(v)) for k, v in src.items()}
            want = _compute(op["kind"], _fresh(p_used), None, fresh_arrays)
            used[c] = True
            if got.shape != want.shape or not np.abs(got - want).max() <= RUN_TO_RUN_TOL * max(1.0, float(np.abs(want).max())):
                dev = float(np.abs(got - want).max()) if got.shape == want.shape else float("nan")
                out.fail(f"differs-from-fresh-objects:{op['kind']}" + (":bath" if b is not None else ""),
                         f"op {i}: deviation {dev:.3e} from the same computation with freshly constructed equal objects")
                return out
    out.nontrivial = reuse
    return out


# ---------------------------------------------------------------- shared composite objects (chains, mean-field systems, controls, ...)

PAULI = ["x", "y", "z", "+", "-"]
SHARED_OPS = ["tebd", "tebd", "tebd", "chain-read", "mf-tempo", "mf-dynamics", "td-tempo", "td-dynamics", "sys-dynamics", "gradient", "gibbs"]


@st.composite
def s_shared(draw, tier):
    n = draw(st.integers(2, 4))
    sites = []
    for _ in range(n):
        # a site may carry NO single-site term at all (nothing added), a Hamiltonian, or Hamiltonian + dissipation
        k = draw(st.sampled_from(["none", "none", "H", "H+diss"]))
        sites.append({"kind": k, "H": draw(gens.herm_spec(2, 1, 2)), "g": draw(st.sampled_from([0.1, 0.3]))})
    nn = []
    for _ in range(n - 1):
        nn.append({"a": draw(st.sampled_from(PAULI)), "b": draw(st.sampled_from(PAULI)), "c": draw(st.sampled_from([0.25, 0.5, 1.0])),
                   "herm": True, "diss": draw(st.sampled_from([False, False, True]))})
    ops = []
    for _ in range(draw(st.integers(2, 6 if tier == "quick" else 9))):
        k = draw(st.sampled_from(SHARED_OPS))
        ops.append({"op": k, "order": draw(st.sampled_from([1, 2])), "dt": draw(st.sampled_from([0.1, 0.2])),
                    "steps": draw(st.integers(1, 3)), "with_pt": draw(st.booleans())})
    return {"sites": sites, "nn": nn, "rhos": [draw(gens.dm_spec(2)) for _ in range(n)], "ops": ops,
            "H": draw(gens.herm_spec(2, 1, 2)), "w": draw(st.sampled_from([0.5, 1.0, 2.0]))}


class _Pool:
    """all objects of one history, built from the case; `_Pool(case)` again gives freshly constructed equal objects"""

    def __init__(self, case):
        import oqupy
        from oqupy import operators
        self.case = case
        sig = operators.sigma
        n = len(case["sites"])
        chain = oqupy.SystemChain([2] * n)
        for i, sspec in enumerate(case["sites"]):
            if sspec["kind"] in ("H", "H+diss"):
                chain.add_site_hamiltonian(i, gens.herm(sspec["H"]))
            if sspec["kind"] == "H+diss":
                chain.add_site_dissipation(i, sig("-"), sspec["g"])
        for i, t in enumerate(case["nn"]):
            a, b = sig(t["a"]), sig(t["b"])
            chain.add_nn_hamiltonian(i, t["c"] * a, b)
            chain.add_nn_hamiltonian(i, t["c"] * a.conj().T, b.conj().T)       # Hermitian in total
            if t["diss"]:
                chain.add_nn_dissipation(i, sig("-"), sig("z"), 0.2)
        self.chain = chain
        self.rhos = [gens.build_dm(r) for r in case["rhos"]]
        self.mps = oqupy.AugmentedMPS(self.rhos)
        self.tebd_par = {(o, dt): oqupy.PtTebdParameters(dt, 1e-9, o) for o in (1, 2) for dt in (0.1, 0.2)}
        H = gens.herm(case["H"])
        w = case["w"]
        self.H = H
        # the systems are built from a buffer the caller owns (complex128, C-ordered: the case in which a conversion
        # without copy aliases it) and the caller overwrites that buffer afterwards (seeded change s13-C20)
        Hc = np.array(H, dtype=np.complex128)
        self.system = oqupy.System(Hc, gammas=[0.1], lindblad_operators=[sig("-")])
        self.system_plain = oqupy.System(Hc)          # GibbsTempo refuses systems with Markovian decay
        Hc[...] = 7.25
        self.follows_buffer = [nm for nm, s_ in (("system", self.system), ("system_plain", self.system_plain))
                               if not np.array_equal(np.asarray(s_.hamiltonian), H)]
        self.tdsys = oqupy.TimeDependentSystem(lambda t: H + 0.3 * np.cos(w * t) * sig("x"),
                                               gammas=[lambda t: 0.1 + 0.05 * np.sin(w * t)], lindblad_operators=[lambda t: sig("-")])
        sp, sm = sig("+"), sig("-")
        self.mfs = oqupy.MeanFieldSystem(
            [oqupy.TimeDependentSystemWithField(lambda t, a: H + 0.3 * (a * sp + np.conj(a) * sm)),
             oqupy.TimeDependentSystemWithField(lambda t, a: 0.5 * w * sig("z") + 0.2 * (a * sp + np.conj(a) * sm))],
            lambda t, states, a: -1j * w * a - 0.1 * a - 0.3j * np.trace(states[0] @ sm) - 0.2j * np.trace(states[1] @ sm))
        self.psys = oqupy.ParameterizedSystem(lambda u: 0.5 * u * sig("x") + H)
        self.bath = oqupy.Bath(0.5 * sig("z"), oqupy.PowerLawSD(0.2, 1.0, 3.0, temperature=0.5))
        self.bath2 = oqupy.Bath(0.5 * sig("x"), oqupy.PowerLawSD(0.1, 1.0, 2.0, temperature=0.0))
        self.par = {dt: oqupy.TempoParameters(dt=dt, epsrel=1e-8, dkmax=2) for dt in (0.1, 0.2)}
        self.gpar = oqupy.GibbsParameters(4, 1e-8)
        self.control = oqupy.Control(2)
        self.control.add_single(1, operators.left_super(sig("x")), post=False)
        self.control.add_single(0.15, operators.left_right_super(sig("z"), sig("z")), post=True)
        self._pts = {}
        self.lists_changed = []

    def _lists(self, **lists):
        """registers caller-owned list arguments; `_check_lists` reports those a call has modified"""
        self._held = {k: (v, list(v)) for k, v in lists.items()}
        return lists

    def _check_lists(self):
        for k, (v, before) in getattr(self, "_held", {}).items():
            if len(v) != len(before) or any(a is not b for a, b in zip(v, before)):
                self.lists_changed.append(k)
        self._held = {}

    def pt(self, dt):
        import oqupy
        if dt not in self._pts:
            self._pts[dt] = oqupy.pt_tempo_compute(self.bath, 0.0, 3.5 * dt, self.par[dt], progress_type="silent")
        return self._pts[dt]

    def run(self, op):
        import oqupy
        kw = dict(progress_type="silent")
        k, dt, N = op["op"], op["dt"], op["steps"]
        n = len(self.rhos)
        if k == "tebd":
            pts = [self.pt(dt) if (op["with_pt"] and i == 0) else None for i in range(n)]
            L = self._lists(process_tensors=pts, dynamics_sites=list(range(n)))
            r = oqupy.PtTebd(self.mps, self.chain, L["process_tensors"], self.tebd_par[(op["order"], dt)],
                             dynamics_sites=L["dynamics_sites"]).compute(N, **kw)
            return np.concatenate([np.array(r["dynamics"][i].states).reshape(-1) for i in range(n)] + [np.asarray(r["norm"]).reshape(-1)])
        if k == "chain-read":
            return np.concatenate([np.asarray(x).reshape(-1) for x in self.chain.get_nn_full_liouvillians()])
        if k == "mf-tempo":
            L = self._lists(bath_list=[self.bath, self.bath2], initial_state_list=self.rhos[:2])
            d = oqupy.MeanFieldTempo(self.mfs, L["bath_list"], self.par[dt], L["initial_state_list"], 0.3 + 0.1j).compute((N + 0.5) * dt, **kw)
            return np.concatenate([np.array(d.system_dynamics[i].states).reshape(-1) for i in range(2)] + [np.asarray(d.fields).reshape(-1)])
        if k == "mf-dynamics":
            L = self._lists(process_tensor_list=[self.pt(dt), self.pt(dt)], initial_state_list=self.rhos[:2],
                            control_list=[self.control, self.control])
            d = oqupy.compute_dynamics_with_field(self.mfs, 0.3 + 0.1j, L["process_tensor_list"], num_steps=N,
                                                  initial_state_list=L["initial_state_list"], control_list=L["control_list"], **kw)
            return np.concatenate([np.array(d.system_dynamics[i].states).reshape(-1) for i in range(2)] + [np.asarray(d.fields).reshape(-1)])
        if k == "td-tempo":
            return np.array(oqupy.Tempo(self.tdsys, self.bath, self.par[dt], self.rhos[0], 0.0).compute((N + 0.5) * dt, **kw).states).reshape(-1)
        if k == "td-dynamics":
            return np.array(oqupy.compute_dynamics(self.tdsys, self.rhos[0], process_tensor=self.pt(dt), control=self.control,
                                                   num_steps=N, **kw).states).reshape(-1)
        if k == "sys-dynamics":
            L = self._lists(process_tensor=[self.pt(dt), self.pt(dt)])
            return np.array(oqupy.compute_dynamics(self.system, self.rhos[0], process_tensor=L["process_tensor"],
                                                   control=self.control, num_steps=N, **kw).states).reshape(-1)
        if k == "gradient":
            M = len(self.pt(dt))
            L = self._lists(process_tensors=[self.pt(dt)])
            r = oqupy.state_gradient(self.psys, self.rhos[0], self.rhos[1].T.copy(), L["process_tensors"],
                                     np.linspace(0.1, 0.8, 2 * M).reshape(2 * M, 1), **kw)
            return np.asarray(r["gradient"]).reshape(-1)
        if k == "gibbs":
            return np.array(oqupy.gibbs_tempo_compute(self.system_plain, self.bath, self.gpar, **kw)).reshape(-1)
        raise ValueError(k)

    def public_state(self):
        """everything a caller can read from the pooled objects, as a dict name -> bytes"""
        st_ = {}
        for i, x in enumerate(self.chain.site_liouvillians):
            st_[f"chain.site_liouvillians[{i}]"] = np.asarray(x)
        for i, x in enumerate(self.chain.nn_liouvillians):
            st_[f"chain.nn_liouvillians[{i}]"] = np.asarray(x)
        for i, x in enumerate(self.mps.gammas):
            st_[f"augmented_mps.gammas[{i}]"] = np.asarray(x)
        for i, x in enumerate(self.mps.lambdas):
            st_[f"augmented_mps.lambdas[{i}]"] = np.asarray(x)
        for i, x in enumerate(self.rhos):
            st_[f"initial_state[{i}]"] = x
        for key, par in self.tebd_par.items():
            st_[f"PtTebdParameters{key}"] = np.array([par.dt, par.epsrel, par.order], dtype=float)
        for key, par in self.par.items():
            st_[f"TempoParameters({key})"] = np.array([par.dt, par.epsrel, par.dkmax], dtype=float)
        st_["system.hamiltonian"] = np.asarray(self.system.hamiltonian)
        st_["system.liouvillian"] = np.asarray(self.system.liouvillian())
        st_["system_plain.hamiltonian"] = np.asarray(self.system_plain.hamiltonian)
        st_["bath.coupling_operator"] = np.asarray(self.bath.coupling_operator)
        st_["bath.unitary_transform"] = np.asarray(self.bath.unitary_transform)
        for step in range(3):
            for post in (False, True):
                c = self.control.get_controls(step, dt=0.1, start_time=0.0)[1 if post else 0]
                st_[f"control[{step},{'post' if post else 'pre'}]"] = np.zeros(0) if c is None else np.asarray(c)
        for dt, pt in self._pts.items():
            st_[f"pt({dt}).tensors"] = _use_pt("tensors", pt, None)
        return {k: (v.shape, v.tobytes()) for k, v in st_.items()}


def run_shared(case):
    out = Outcome()
    pool = _Pool(case)
    seen = {}
    reuse = False
    out.label("construction-buffer-overwritten")
    if pool.follows_buffer:
        out.fail(f"object-follows-callers-buffer:{pool.follows_buffer[0]}",
                 f"{pool.follows_buffer}: hamiltonian changed when the caller overwrote the array it had been constructed from")
        out.nontrivial = True
        return out
    pure_bond = any(case["sites"][i]["kind"] == "none" and case["sites"][i + 1]["kind"] == "none" for i in range(len(case["sites"]) - 1))
    out.label("bond-without-site-terms" if pure_bond else "all-bonds-have-site-terms", f"sites={len(case['sites'])}")
    for i, op in enumerate(case["ops"]):
        k = op["op"]
        before = pool.public_state()
        got = pool.run(op)
        pool._check_lists()
        if pool.lists_changed:
            out.fail(f"caller-list-modified:{k}:{pool.lists_changed[0]}", f"op {i} ({k}): list argument(s) {pool.lists_changed} changed")
            return out
        after = pool.public_state()
        out.label("shared:" + k)
        changed = sorted(x for x in before if x in after and before[x] != after[x])
        if changed:
            out.fail(f"object-modified-by-use:{k}:{changed[0].split('[')[0].split('(')[0]}",
                     f"op {i} ({k}): public state changed: {changed[:4]}")
            return out
        want = _Pool(case).run(op)
        scale = max(1.0, float(np.abs(want).max()))
        tol = (1e-12 if k == "chain-read" else RUN_TO_RUN_TOL) * scale
        if got.shape != want.shape or not np.abs(got - want).max() <= tol:
            dev = float(np.abs(got - want).max()) if got.shape == want.shape else float("nan")
            out.fail(f"shared-objects-differ-from-fresh:{k}", f"op {i} ({k}, earlier ops {[o['op'] for o in case['ops'][:i]]}): "
                     f"deviation {dev:.3e} from the same call on freshly constructed equal objects")
            return out
        reuse |= i > 0
        seen[k] = seen.get(k, 0) + 1
    out.nontrivial = reuse
    return out


# ---------------------------------------------------------------- process-wide state: history vs a fresh interpreter

COMPUTE_KINDS = ["tempo", "tempo-unique", "pt", "pt-unique", "mean-field-unique", "gibbs", "pt-tebd", "gradient"]


@st.composite
def s_fresh(draw, tier):
    n = draw(st.integers(2, 4))
    steps = []
    for _ in range(n):
        d = draw(st.sampled_from([2, 3, 3]))
        steps.append({"kind": draw(st.sampled_from(COMPUTE_KINDS)), "d": d,
                      "o": draw(st.lists(st.sampled_from([-1.0, 0.0, 0.0, 1.0, 2.0]), min_size=d, max_size=d)),
                      "H": draw(gens.herm_spec(d, 1, 2)), "rho0": draw(gens.dm_spec(d)),
                      "alpha": draw(st.sampled_from([0.1, 0.3])), "T": draw(st.sampled_from([0.0, 0.5])),
                      "dt": draw(st.sampled_from([0.1, 0.2]))})
    return {"steps": steps}


def fresh_compute(step):
    """one self-contained computation from plain numbers (also imported by the child interpreter)"""
    import oqupy
    from oqupy import operators
    d = step["d"]
    o = np.array(step["o"], dtype=float)
    if o.max() == o.min():
        o = o.copy()
        o[0] += 1.0
    O = np.diag(o).astype(complex)
    H = gens.herm(step["H"])
    rho0 = gens.build_dm(step["rho0"])
    corr = oqupy.PowerLawSD(step["alpha"], 1.0, 3.0, temperature=step["T"])
    bath = oqupy.Bath(O, corr)
    dt = step["dt"]
    par = oqupy.TempoParameters(dt=dt, epsrel=1e-8, dkmax=2)
    end = 3.5 * dt
    kw = dict(progress_type="silent")
    k = step["kind"]
    system = oqupy.System(H)
    if k in ("tempo", "tempo-unique"):
        return np.array(oqupy.Tempo(system, bath, par, rho0, 0.0, unique=k.endswith("unique")).compute(end, **kw).states)
    if k in ("pt", "pt-unique"):
        pt = oqupy.pt_tempo_compute(bath, 0.0, end, par, unique=k.endswith("unique"), **kw)
        return np.array(oqupy.compute_dynamics(system, rho0, process_tensor=pt, **kw).states)
    if k == "mean-field-unique":
        B = np.diag(np.ones(d - 1), 1).astype(complex)
        sysf = oqupy.TimeDependentSystemWithField(lambda t, a: H + 0.3 * (a * B + np.conj(a) * B.conj().T))
        mfs = oqupy.MeanFieldSystem([sysf], lambda t, st_, a: (-0.1 + 0.5j) * a + 0.3 * t + 0.5 * np.trace(st_[0] @ B))
        dm = oqupy.MeanFieldTempo(mfs, [bath], par, [rho0], 0.2 + 0.1j, unique=True).compute(end, **kw)
        return np.concatenate([np.array(dm.system_dynamics[0].states).reshape(-1), np.array(dm.fields)])
    if k == "gibbs":
        if step["T"] <= 0:
            return np.zeros(1)
        return np.array(oqupy.gibbs_tempo_compute(system, bath, oqupy.GibbsParameters(4, 1e-8), **kw))
    pt = oqupy.pt_tempo_compute(bath, 0.0, end, par, **kw)
    if k == "gradient":
        A = np.diag(np.arange(d, dtype=float)).astype(complex)
        psys = oqupy.ParameterizedSystem(lambda u: H + 0.5 * u * A)
        return np.asarray(oqupy.state_gradient(psys, rho0, rho0.T.copy(), [pt], np.linspace(0.1, 0.8, 6).reshape(6, 1), **kw)["gradient"])
    chain = oqupy.SystemChain([d, 2])
    chain.add_site_hamiltonian(0, H)
    chain.add_nn_hamiltonian(0, O, operators.sigma("x"))
    r = oqupy.PtTebd(oqupy.AugmentedMPS([rho0, operators.spin_dm("up")]), chain, [pt, None],
                     oqupy.PtTebdParameters(dt, 1e-9, 2), dynamics_sites=[0, 1]).compute(3, **kw)
    return np.concatenate([np.array(r["dynamics"][0].states).reshape(-1), np.array(r["dynamics"][1].states).reshape(-1)])


CHILD = r"""
import sys, json
sys.path.insert(0, sys.argv[1]); sys.path.insert(0, sys.argv[2])
import warnings; warnings.simplefilter("ignore")
import numpy as np
from checks.c20 import fresh_compute
step = json.load(open(sys.argv[3]))
r = np.asarray(fresh_compute(step)).reshape(-1)
json.dump([[float(z.real), float(z.imag)] for z in r.astype(complex)], open(sys.argv[4], "w"))
"""


def run_fresh(case):
    """the last computation of an in-process history must equal the same computation in a fresh interpreter"""
    import json
    import os
    import shutil
    import subprocess
    import sys
    import tempfile
    from vlib.runner import REPO_DIR, VERIF_DIR, HarnessError
    out = Outcome()
    steps = case["steps"]
    out.nontrivial = len(steps) >= 2
    for s_ in steps:
        out.label("kind=" + s_["kind"], f"d={s_['d']}")
    res = None
    for s_ in steps:
        res = np.asarray(fresh_compute(s_)).reshape(-1)
    tmp = tempfile.mkdtemp(prefix="verif_c20_")
    try:
        jf, of = os.path.join(tmp, "step.json"), os.path.join(tmp, "out.json")
        json.dump(steps[-1], open(jf, "w"))
        r = subprocess.run([sys.executable, "-c", CHILD, REPO_DIR, VERIF_DIR, jf, of], capture_output=True, text=True,
                           env=dict(os.environ, PYTHONHASHSEED="0", OMP_NUM_THREADS="1"), timeout=900)
        if r.returncode != 0:
            raise HarnessError("fresh interpreter failed: " + r.stderr[-600:])
        want = np.array([complex(a, b) for a, b in json.load(open(of))])
    finally:
        shutil.rmtree(tmp, ignore_errors=True)
    if res.shape != want.shape or not np.abs(res - want).max() <= RUN_TO_RUN_TOL * 10 * max(1.0, float(np.abs(want).max())):
        dev = float(np.abs(res - want).max()) if res.shape == want.shape else float("nan")
        out.fail("depends-on-earlier-computations:" + steps[-1]["kind"],
                 f"after {[s_['kind'] for s_ in steps[:-1]]} the {steps[-1]['kind']} computation deviates by {dev:.3e} from the same "
                 "computation in a fresh interpreter")
    return out


def subs(tier):
    return [Sub("history", run_case, strategy=s_case, budget={"quick": 960, "thorough": 8000}),
            Sub("shared-objects", run_shared, strategy=s_shared, budget={"quick": 320, "thorough": 3000}),
            Sub("fresh-process", run_fresh, strategy=s_fresh, budget={"quick": 96, "thorough": 800})]
