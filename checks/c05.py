"""C05 - results are basis covariant; every Hermitian coupling operator is accepted."""
import numpy as np
from hypothesis import strategies as st

from vlib import gens, mfgen, sysgen, tempogen
from vlib.runner import Outcome, Sub

ID = "C05"
LEVEL = "exploration"
RULE = ("(a) Hypothesis-generated Hermitian coupling operators O = V diag(o) V^dagger, d=2..5, eigenvalue pools forcing "
        "repeated and zero eigenvalues, V from a structured+generic unitary family: Bath construction must succeed and "
        "report a unitary transform with real diagonal operator reproducing O. (b) metamorphic relation: (H,O,rho0) vs "
        "(VHV^+,VOV^+,V rho0 V^+) must give V rho(t) V^+ at every step for TEMPO and PT-TEMPO+compute_dynamics (and "
        "mean-field TEMPO), tolerance c_T (N+1) epsrel + 1e-7. Non-trivial: V is not a phase-permutation matrix; "
        "distinct = distinct canonical JSON of the case.")
TECHNIQUE = "Hypothesis property-based testing: validity predicate on Bath's diagonalisation + metamorphic basis-change relation on dynamics"
LEVEL_TEXT = 'Thousands of generated Hermitian coupling operators (repeated/zero eigenvalues, structured and generic rotations) must be accepted with a unitary transform, real spectrum and exact reconstruction; TEMPO and PT-TEMPO dynamics of a rotated problem must equal the rotated dynamics at every step within the truncation tolerance.'
LEVEL_NOTE = 'Dynamics compared within c_T (N+1) epsrel + 1e-7 (c_T=100 TEMPO, 1000 PT-TEMPO) on conditioned inputs (D<=3.5).'
ASSUMPTIONS = [
    "TEMPO inputs are conditioned (D <= 3.5) and size-coupled as in DESIGN section 4",
    "near-diagonal operators (off-diagonals below numpy.allclose tolerance) are not generated",
]


@st.composite
def s_bath_case(draw, tier):
    d = draw(st.integers(2, 5))
    kind = draw(st.sampled_from(["pool", "pool", "generic", "repeat"]))
    if kind == "pool":
        o = [draw(st.sampled_from([-1.0, -0.5, 0.0, 0.5, 1.0, 2.0])) for _ in range(d)]
    elif kind == "generic":
        o = [draw(gens.grid(-3, 3, 16)) for _ in range(d)]
    else:
        v = draw(st.sampled_from([0.0, 1.0, -0.5]))
        k = draw(st.integers(2, d))
        o = [v] * k + [draw(gens.grid(-2, 2, 4)) for _ in range(d - k)]
        o = list(draw(st.permutations(o)))
    return {"d": d, "o": o, "V": draw(gens.unitary_spec(d))}


def run_bath(case):
    import oqupy
    out = Outcome()
    d = case["d"]
    o = np.array(case["o"], dtype=float)
    V = gens.build_unitary(case["V"], d)
    O = V @ np.diag(o) @ V.conj().T
    O = (O + O.conj().T) / 2
    offdiag = np.abs(O - np.diag(np.diag(O))).max()
    if 0 < offdiag < 1e-3:
        out.label("near-diagonal-skipped")
        return out
    degenerate = len(set(np.round(o, 9))) < d
    out.nontrivial = not gens.is_phase_permutation(V) and offdiag >= 1e-3
    out.label("degenerate" if degenerate else "non-degenerate", "V=" + case["V"]["kind"], f"d={d}")
    if degenerate and list(np.round(o, 9)).count(0.0) >= 2:
        out.label("zero-eigenvalue-repeated")
    if offdiag < 1e-3:
        out.label("diagonal-after-rotation")
    corr = oqupy.PowerLawSD(alpha=0.1, zeta=1.0, cutoff=3.0, temperature=0.5)
    bath = oqupy.Bath(O, corr)
    U = bath.unitary_transform
    Dg = bath.coupling_operator
    out.check_close("unitary", U.conj().T @ U, np.eye(d), 1e-10, "U^dagger U")
    out.check_close("diagonal", Dg, np.diag(np.diag(Dg)), 1e-12, "coupling operator diagonal")
    out.check_close("real-eigenvalues", np.diag(Dg).imag, np.zeros(d), 1e-12, "imag part of eigenvalues")
    out.check_close("reproduces", U @ Dg @ U.conj().T, O, 1e-10, "U D U^dagger = O")
    out.check_close("spectrum", np.sort(np.diag(Dg).real), np.sort(o), 1e-10, "eigenvalues")
    return out


@st.composite
def s_dyn_case(draw, tier):
    d = draw(st.integers(2, 4 if tier == "quick" else 5))
    return {"d": d,
            "bath": draw(tempogen.bath_spec(d, distinct_if_rotated=False, custom_weight=0.0,
                                            temps=[0.0, 0.1, 1.0, 10.0], zetas=[0.5, 1.0, 2.0, 3.0])),
            "par": draw(tempogen.params_spec(d, tier, n_min=2, eps=[1e-8, 1e-9])),
            "V": draw(gens.unitary_spec(d, allow_identity=False)),
            "sys": draw(sysgen.sys_spec(d)), "rho0": draw(gens.dm_spec(d)),
            "t0": draw(st.sampled_from([0.0, 0.0, 0.9])),
            "unique": draw(st.booleans())}


def run_dyn(case):
    import oqupy
    out = Outcome()
    d, p, b = case["d"], case["par"], case["bath"]
    V = gens.build_unitary(case["V"], d)
    Vd = V.conj().T
    sd, D, f = tempogen.conditioned_sd(b, p)
    O, W = tempogen.coupling_operator(b, d)
    if b["V"]["kind"] == "identity":
        O = np.diag(np.array(b["o"], dtype=float)).astype(complex)
    O2 = V @ O @ Vd
    O2 = (O2 + O2.conj().T) / 2
    off = np.abs(O2 - np.diag(np.diag(O2))).max()
    if 0 < off < 1e-3:
        out.label("near-diagonal-skipped")
        return out
    rho0 = gens.build_dm(case["rho0"])
    rho0r = V @ rho0 @ Vd
    t0 = case["t0"]
    par = tempogen.build_params(p, subdiv_limit=sysgen.subdiv_limit(case["sys"]))
    t_end = tempogen.end_time(p, t0)
    s1 = sysgen.build_system(case["sys"])
    s2 = sysgen.build_system(case["sys"], rot=V)
    corr = gens.build_corr(sd)
    degenerate = len(set(np.round(np.array(b["o"]), 9))) < d
    out.nontrivial = not gens.is_phase_permutation(V)
    out.label("degenerate" if degenerate else "non-degenerate", case["sys"]["kind"],
              "cutoff-active" if tempogen.cutoff_active(p) else "full-memory",
              "base-rotated" if b["V"]["kind"] != "identity" else "base-diagonal")
    res = {}
    for tag, system, Oc, r0 in (("a", s1, O, rho0), ("b", s2, O2, rho0r)):
        bath = oqupy.Bath(Oc, corr)
        dyn = oqupy.Tempo(system, bath, par, r0, t0, unique=case["unique"]).compute(t_end, progress_type="silent")
        pt = oqupy.pt_tempo_compute(bath, t0, t_end, par, unique=case["unique"], progress_type="silent")
        dyn2 = oqupy.compute_dynamics(system, r0, process_tensor=pt, start_time=t0,
                                      subdiv_limit=sysgen.subdiv_limit(case["sys"]), progress_type="silent")
        res[tag] = (np.array(dyn.states), np.array(dyn2.states))
    rot = lambda st: np.einsum("ab,tbc,cd->tad", V, st, Vd)
    out.check_close("tempo", res["b"][0], rot(res["a"][0]), tempogen.trunc_tol(p, 100.0), "TEMPO covariance")
    out.check_close("pt-tempo", res["b"][1], rot(res["a"][1]), tempogen.trunc_tol(p, 1000.0), "PT-TEMPO covariance")
    return out


@st.composite
def s_mf_case(draw, tier):
    mf = draw(mfgen.mf_spec(tier, ns_max=2, dims=(2, 3)))
    dmax = max(s["d"] for s in mf["systems"])
    return {"mf": mf, "par": draw(tempogen.params_spec(dmax, tier, n_min=2, n_max=5, eps=[1e-8, 1e-9])),
            "baths": [draw(tempogen.bath_spec(s["d"], distinct_if_rotated=False, custom_weight=0.0,
                                              temps=[0.0, 0.5, 5.0], zetas=[1.0, 2.0, 3.0])) for s in mf["systems"]],
            "Vs": [draw(gens.unitary_spec(s["d"], allow_identity=False)) for s in mf["systems"]],
            "t0": draw(st.sampled_from([0.0, 0.6])), "unique": draw(st.booleans())}


def run_mf(case):
    import oqupy
    out = Outcome()
    mf, p, t0 = case["mf"], case["par"], case["t0"]
    ds = [s["d"] for s in mf["systems"]]
    Vs = [gens.build_unitary(v, d) for v, d in zip(case["Vs"], ds)]
    par = tempogen.build_params(p)
    t_end = tempogen.end_time(p, t0)
    rhos = mfgen.initial_states(mf)
    a0 = complex(*mf["a0"])
    baths_a, baths_b = [], []
    for b, d, V in zip(case["baths"], ds, Vs):
        sd, D, f = tempogen.conditioned_sd(b, p)
        O, W = tempogen.coupling_operator(b, d)
        if b["V"]["kind"] == "identity":
            O = np.diag(np.array(b["o"], dtype=float)).astype(complex)
        O2 = V @ O @ V.conj().T
        O2 = (O2 + O2.conj().T) / 2
        off = np.abs(O2 - np.diag(np.diag(O2))).max()
        if 0 < off < 1e-3:
            out.label("near-diagonal-skipped")
            return out
        corr = gens.build_corr(sd)
        baths_a.append(oqupy.Bath(O, corr))
        baths_b.append(oqupy.Bath(O2, corr))
    out.nontrivial = any(not gens.is_phase_permutation(V) for V in Vs)
    out.label(f"systems={len(ds)}", "cutoff-active" if tempogen.cutoff_active(p) else "full-memory")
    da = oqupy.MeanFieldTempo(mfgen.build_mf_system(mf), baths_a, par, rhos, a0, start_time=t0,
                              unique=case["unique"]).compute(t_end, progress_type="silent")
    db = oqupy.MeanFieldTempo(mfgen.build_mf_system(mf, rots=Vs), baths_b, par,
                              [V @ r @ V.conj().T for V, r in zip(Vs, rhos)], a0, start_time=t0,
                              unique=case["unique"]).compute(t_end, progress_type="silent")
    amax = max(1.0, float(np.abs(np.array(da.fields)).max()))
    tol = tempogen.trunc_tol(p, 100.0, scale=amax)
    out.check_close("mean-field/field", np.array(db.fields), np.array(da.fields), tol, "field under the basis change")
    for i, V in enumerate(Vs):
        want = np.einsum("ab,tbc,cd->tad", V, np.array(da.system_dynamics[i].states), V.conj().T)
        out.check_close("mean-field/states", np.array(db.system_dynamics[i].states), want, tol, f"system {i}")
    return out


def subs(tier):
    return [
        Sub("bath", run_bath, strategy=s_bath_case, budget={"quick": 5000, "thorough": 50000}),
        Sub("dynamics", run_dyn, strategy=s_dyn_case, budget={"quick": 160, "thorough": 1500}),
        Sub("mean-field", run_mf, strategy=s_mf_case, budget={"quick": 96, "thorough": 900}),
    ]
