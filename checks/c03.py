"""C03 - contracting any process tensor reproduces the exact joint evolution."""
import itertools

import numpy as np
from hypothesis import strategies as st

from vlib import ancgen, gens, sysgen, tempogen
from vlib.refs import anc as A
from vlib.runner import Outcome, Sub

ID = "C03"
LEVEL = "exploration"
RULE = ("Hypothesis-generated finite ancilla environments (dimension 1..3, generic or controlled joint unitaries, "
        "constant or step dependent, optional ancilla dephasing/damping channel, mixed ancilla states) turned into "
        "hand-built process tensors (rank-4, rank-3 delta, Liouville-rotated rank-4 with transforms, Hilbert-rotated "
        "rank-3 with transforms), 0..3 environments, systems d=2..3 (constant / time dependent, Lindblad terms), "
        "control schedules, every permutation of the tensor list, initial states handed over C-/F-ordered, strided, "
        "read-only or as transposed views, tensors of different lengths in one list (the "
        "computation covers the shortest), num_steps prefixes, record_all=False; oracle = explicit joint density-matrix evolution "
        "(R-anc) at every step, tolerance 1e-10. Sum rule / order independence for PT-TEMPO tensors within the "
        "truncation tolerance. Non-trivial: at least one environment whose joint unitary is entangling and N >= 2 "
        "(memory across steps), or two or more environments; distinct = distinct canonical JSON of the case.")
TECHNIQUE = 'Hypothesis property-based testing against a reference model (explicit system+ancilla evolution); metamorphic list permutations and sum rule'
LEVEL_TEXT = 'Generated ancilla environments are turned into hand-built process tensors and compute_dynamics is compared at every step with the explicit joint density-matrix evolution (1e-10), for 0..3 environments, all list permutations, rank-3/rank-4 tensors with and without transforms, controls; PT-TEMPO sum rule within truncation tolerance. Exploration at small dimensions.'
LEVEL_NOTE = 'Trusts the dense numpy joint evolution (vlib/refs/anc.py); environment sizes d<=3, ancilla<=3, N<=8.'
ASSUMPTIONS = [
    "the explicit joint evolution written with dense numpy (vlib/refs/anc.py) is the ground truth",
    "rank-3 tensors with transforms are only generated in the PT-TEMPO convention (interaction diagonal in a rotated Hilbert basis)",
    "PT-TEMPO inputs are conditioned (D <= 3.5) and size-coupled as in DESIGN section 4",
]
TOL = 1e-10


@st.composite
def s_case(draw, tier):
    d = draw(st.integers(2, 3))
    N = draw(st.integers(1, 6 if tier == "quick" else 8))
    nenv = draw(st.sampled_from([0, 1, 1, 1, 2, 2, 3]))
    e_max = 3 if nenv <= 2 else 2
    envs = [draw(ancgen.env_spec(d, N, e_max=e_max)) for _ in range(nenv)]
    nctl = draw(st.integers(0, 3))
    controls = [{"step": draw(st.integers(0, N)), "post": draw(st.booleans()),
                 "op": draw(ancgen.control_op_spec(d))} for _ in range(nctl)]
    return {"d": d, "N": N, "dt": draw(st.sampled_from([0.05, 0.1, 0.3, 0.7])),
            "t0": draw(st.sampled_from([0.0, 0.0, 0.7, -1.3])),
            "sys": draw(sysgen.sys_spec(d)), "rho0": draw(gens.dm_spec(d)),
            "envs": envs, "controls": controls,
            "trivial_pt": draw(st.booleans()), "pass_dt": draw(st.booleans()),
            "prefix": draw(st.one_of(st.none(), st.integers(1, N))),
            # process tensors of different lengths in one list: the computation covers the shortest (N steps)
            # memory layout in which the caller hands over the initial state (same numbers)
            "rho0_layout": draw(st.sampled_from(["C", "C", "F", "strided", "T-of-T", "readonly"])),
            "longer": [0] + [draw(st.sampled_from([0, 0, 1, 2])) for _ in range(max(0, nenv - 1))] if nenv else []}


def _controls(case, d):
    import oqupy
    ctl = oqupy.Control(d)
    ref = {}
    for c in case["controls"]:
        S = ancgen.build_control_op(c["op"], d)
        ctl.add_single(int(c["step"]), S, post=bool(c["post"]))
        pre, post = ref.get(c["step"], (None, None))
        if c["post"]:
            post = S if post is None else S @ post
        else:
            pre = S if pre is None else S @ pre
        ref[c["step"]] = (pre, post)
    return ctl, ref


def run_case(case):
    import oqupy
    out = Outcome()
    d, N, dt, t0 = case["d"], case["N"], case["dt"], case["t0"]
    system = sysgen.build_system(case["sys"])
    rho0 = gens.build_dm(case["rho0"])
    if case.get("rho0_layout", "C") != "C":
        from checks.c20 import layout
        rho0 = layout(rho0, case["rho0_layout"])
        out.label("rho0-layout=" + case["rho0_layout"])
    longer = case.get("longer") or [0] * len(case["envs"])
    envs = [ancgen.build_env(s, d, N + longer[i], dt=dt if (i == 0 or case["pass_dt"]) else None)
            for i, s in enumerate(case["envs"])]
    if any(longer):
        out.label("different-lengths")
    ctl, ref_ctl = _controls(case, d)
    props = sysgen.ref_props(case["sys"], dt, t0)
    n = len(envs)
    out.nontrivial = (any(e["entangling"] for e in envs) and N >= 2) or n >= 2
    out.label(f"envs={n}", f"d={d}", case["sys"]["kind"])
    for e in envs:
        out.label("store=" + e["store"])
    if case["controls"]:
        out.label("controls")
    # caps of trace-preserving hand-built tensors equal vec(1_E) (untransformed ones)
    for e, s, extra in zip(envs, case["envs"], longer):
        if s["store"] in ("rank4", "rank3"):
            for k in range(N + extra + 1):
                cap = e["pt"].get_cap_tensor(k)
                want = np.eye(e["e"]).reshape(-1) if 0 < k < N + extra else np.ones(1)
                out.check_close("caps", cap, want, TOL, f"cap {k}")
    kw = dict(start_time=t0, control=ctl, subdiv_limit=sysgen.subdiv_limit(case["sys"]),
              progress_type="silent")
    if case["sys"]["kind"] == "td" and case["sys"].get("integ"):
        kw["liouvillian_epsrel"] = 1e-11
    perms = list(itertools.permutations(range(n))) if n >= 2 else [tuple(range(n))]
    commute = n >= 2 and all(e["delta"] for e in envs)
    results = {}
    for perm in perms:
        pts = [envs[j]["pt"] for j in perm]
        if n == 0:
            if case["trivial_pt"]:
                out.label("TrivialProcessTensor")
                dyn = oqupy.compute_dynamics(system, rho0, dt=dt, num_steps=N,
                                             process_tensor=[oqupy.process_tensor.TrivialProcessTensor(d)], **kw)
            else:
                out.label("no-process-tensor")
                dyn = oqupy.compute_dynamics(system, rho0, dt=dt, num_steps=N, **kw)
        elif n == 1 and not case["trivial_pt"]:
            dyn = oqupy.compute_dynamics(system, rho0, process_tensor=pts[0], **kw)
        else:
            dyn = oqupy.compute_dynamics(system, rho0, process_tensor=pts, **kw)
        ref = A.ref_dynamics(d, [envs[j] for j in perm], rho0, props, N, ref_ctl)
        tol = TOL * max(1.0, float(np.abs(ref).max()))
        if case["sys"]["kind"] == "td" and case["sys"].get("integ"):
            tol = max(tol, 1e-8)
        out.check_close("joint-evolution" + ("" if perm == perms[0] else "/permuted"),
                        np.array(dyn.states), ref, tol, f"perm {perm}")
        out.check_close("times", np.array(dyn.times), t0 + dt * np.arange(N + 1), 1e-12 * max(1, abs(t0) + N * dt))
        results[perm] = np.array(dyn.states)
        if perm == perms[0]:
            # only the final state is computed
            if n == 0:
                dfin = oqupy.compute_dynamics(system, rho0, dt=dt, num_steps=N, record_all=False, **kw)
            else:
                dfin = oqupy.compute_dynamics(system, rho0, process_tensor=pts if len(pts) > 1 else pts[0], record_all=False, **kw)
            out.check_close("record_all=False", np.array(dfin.states)[-1], ref[-1], tol, "final state only")
            if len(dfin.times) != 1 or abs(dfin.times[0] - (t0 + N * dt)) > 1e-12 * (abs(t0) + N * dt + 1):
                out.fail("record_all=False/time", f"{list(dfin.times)}")
        npre = case.get("prefix")
        if npre is not None and n >= 1 and perm == perms[0] and not any(c["step"] > npre for c in case["controls"]):
            # only the first n steps of longer process tensors
            out.label("prefix-num_steps")
            dpre = oqupy.compute_dynamics(system, rho0, process_tensor=pts if len(pts) > 1 else pts[0], num_steps=npre, **kw)
            out.check_close("prefix", np.array(dpre.states), ref[:npre + 1], tol, f"num_steps={npre} of {N}")
    if len(perms) > 1:
        out.label("permutations")
        if commute:
            out.label("commuting-envs")
            base = results[perms[0]]
            for perm in perms[1:]:
                out.check_close("order-independence", results[perm], base,
                                TOL * max(1.0, float(np.abs(base).max())), f"perm {perm}")
    return out


# ---- PT-TEMPO tensors: sum rule and order independence -----------------------

@st.composite
def s_sum_case(draw, tier):
    d = draw(st.integers(2, 3))
    b = draw(tempogen.bath_spec(d, custom_weight=0.0, temps=[0.0, 0.1, 1.0, 5.0], zetas=[1.0, 2.0, 3.0]))
    p = draw(tempogen.params_spec(d, tier, n_min=2, n_max=6, eps=[1e-8, 1e-9]))
    frac = draw(st.sampled_from([0.25, 0.5, 0.75]))
    o2 = draw(tempogen.eigenvalues(d))
    return {"d": d, "bath": b, "par": p, "frac": frac, "o2": o2,
            "sys": draw(sysgen.sys_spec(d, allow_td=False)), "rho0": draw(gens.dm_spec(d))}


def run_sum(case):
    import oqupy
    out = Outcome()
    d, p, b = case["d"], case["par"], case["bath"]
    sd, D, f = tempogen.conditioned_sd(b, p)
    O, V = tempogen.coupling_operator(b, d)
    par = tempogen.build_params(p)
    t_end = tempogen.end_time(p)
    system = sysgen.build_system(case["sys"])
    rho0 = gens.build_dm(case["rho0"])
    fr = case["frac"]
    sd1, sd2 = gens.scaled_spec(sd, fr), gens.scaled_spec(sd, 1 - fr)
    mk = lambda op, s: oqupy.pt_tempo_compute(oqupy.Bath(op, gens.build_corr(s)), 0.0, t_end, par,
                                              progress_type="silent")
    pt, pt1, pt2 = mk(O, sd), mk(O, sd1), mk(O, sd2)
    cd = lambda pts: np.array(oqupy.compute_dynamics(system, rho0, process_tensor=pts,
                                                     progress_type="silent").states)
    one = cd([pt])
    two = cd([pt1, pt2])
    two_r = cd([pt2, pt1])
    tol = tempogen.trunc_tol(p) * 2
    out.nontrivial = True
    out.label("rotated" if b["V"]["kind"] != "identity" else "diagonal",
              "cutoff-active" if tempogen.cutoff_active(p) else "full-memory")
    out.check_close("sum-rule", two, one, tol, "J1+J2 as two tensors vs one tensor")
    out.check_close("sum-rule/order", two_r, two, tol, "same coupling operator, swapped")
    # commuting but different coupling operators in the same basis: order independent
    o2 = np.array(case["o2"], dtype=float)
    if o2.max() - o2.min() > 0:
        O2 = V @ np.diag(o2) @ V.conj().T
        O2 = (O2 + O2.conj().T) / 2
        b2 = dict(b, o=list(case["o2"]))
        sdb, _, _ = tempogen.conditioned_sd(b2, p)
        pt3 = mk(O2, gens.scaled_spec(sdb, 0.5))
        a = cd([pt1, pt3])
        c = cd([pt3, pt1])
        out.check_close("commuting-order", a, c, tol, "commuting coupling operators, swapped")
        out.label("two-operators")
    return out


def subs(tier):
    return [
        Sub("ancilla", run_case, strategy=s_case, budget={"quick": 1500, "thorough": 15000}),
        Sub("pt-tempo-sum", run_sum, strategy=s_sum_case, budget={"quick": 64, "thorough": 600}),
    ]
