"""C19 - no computation leaves background activity behind, whether it returns or fails."""
import io
import os
import subprocess
import sys
import threading

import numpy as np

from vlib.runner import REPO_DIR, HarnessError, Outcome, Sub
from vlib.sched import FakeTimer, Scheduler, explore

ID = "C19"
LEVEL = "fault_enumeration"
RULE = ("(failure points, exhaustive) for each API (compute_dynamics, compute_dynamics_with_field, "
        "compute_gradient_and_dynamics/state_gradient incl. the chain rule, Tempo, MeanFieldTempo, PtTempo, GibbsTempo, PtTebd, "
        "compute_correlations), each progress type {silent, simple, bar, None=default}, N=4 steps and each step k=0..N a "
        "failure is injected at step k: exception from the Hamiltonian / rate / Lindblad / field-equation / target / "
        "propagator-derivative / correlation / spectral-density callable (the Hamiltonian also raising a BaseException that "
        "is not an Exception, like KeyboardInterrupt), a missing cap tensor, a mis-shaped MPO tensor; an output stream that breaks after k writes of the progress "
        "report; computations of zero "
        "steps; a chain computation continued by a second compute() (single- and multi-threaded); plus "
        "the exception-free run and runs where the (harness-owned) timer fires in the middle of the computation. "
        "oqupy.util.Timer is replaced by a fake timer (no wall clock). Oracle after the call returned or raised: no armed "
        "timer, no live thread beyond the baseline. (interleavings, exhaustive) a cooperative line-level scheduler "
        "(sys.settrace) runs the timer callback and the caller (exit(), or update() then exit()) in EVERY interleaving of the "
        "lines of ProgressBar.enter/update/exit (callback vs exit(): complete, ~800 schedules; callback vs update()+exit(): "
        "depth-first up to 1500 schedules quick / 20000 thorough); oracle at quiescence: no armed timer. (real-threads) the same failure with "
        "real threading.Timer in a child interpreter, judged from the thread table. The failing callables are armed only after the "
        "constructors' input checks (which evaluate them at t=1.0), so the failure happens inside the running computation. "
        "Non-trivial: failure at 0<k<=N with progress 'bar'/default raised after the computation armed a progress timer, or a pre-emption inside update()/exit().")
TECHNIQUE = "fault injection with exhaustive enumeration of failure points x progress modes, and exhaustive schedule enumeration of the progress-timer callback against the caller with a harness-owned scheduler and fake timer"
LEVEL_TEXT = ("Every (API, failure kind, step, progress mode) combination is executed with a harness-owned timer and the "
              "post-condition 'nothing armed, nothing alive' is checked; all line-level interleavings of one timer callback with "
              "the finishing caller are enumerated.")
LEVEL_NOTE = ("Interleavings are at source-line granularity of ProgressBar methods; a thread that does not reach its next line "
              "within 4 ms is presumed blocked on a lock (affects coverage only; the verdict is taken at quiescence).")
ASSUMPTIONS = ["the library's only background activity is the progress timer (oqupy.util.Timer) and the PT-TEBD executors"]

N = 4
DT = 0.1
PROGRESS = ["silent", "simple", "bar", None]


class Boom(Exception):
    pass


class BoomBase(BaseException):
    """a failure that is not an Exception (like KeyboardInterrupt): clean-up written as `except Exception` misses it"""


ARMED = [False]      # the constructors evaluate user callables at t=1.0 for input checks: guards are armed after construction


def _at_step(k, t0=0.0, exc=Boom):
    """callable guard: raise when evaluated (by a computation, not by a constructor's input check) at a time inside
    step k or later"""
    thr = t0 + k * DT - 1e-12

    def guard(t):
        if ARMED[0] and t > thr:
            raise exc(f"injected at t={t}")
    return guard


def _after_calls(j):
    c = [0]

    def guard():
        c[0] += 1
        if c[0] >= j:
            raise Boom(f"injected at call {c[0]}")
    return guard


def _pt(kind, k):
    """hand-built 4-step process tensor with an optional defect at step k"""
    from vlib.refs import anc as A
    from scipy.linalg import expm
    H = np.array([[0.3, 0.2, 0.1, 0.0], [0.2, -0.1, 0.0, 0.3], [0.1, 0.0, 0.2, 0.1], [0.0, 0.3, 0.1, -0.4]])
    U = expm(-1j * H)
    rhoE = np.diag([0.7, 0.3]).astype(complex)
    tens = A.mpo_tensors(2, 2, [[U]] * N, rhoE)
    if kind == "bad-mpo" and k < N:
        tens[k] = tens[k][:, :, :3, :]          # system-in leg of dimension 3 instead of 4
    pt = A.make_pt(2, tens, dt=DT) if kind != "bad-mpo" else _raw_pt(tens)
    if kind == "missing-cap":
        pt._cap_tensors[k] = None
    return pt


def _raw_pt(tens):
    import oqupy
    pt = oqupy.process_tensor.SimpleProcessTensor(2, dt=DT)
    good = []
    for k, M in enumerate(tens):
        pt.set_mpo_tensor(k, np.array(M))
    # caps from the intact tensors (compute_caps would already fail on the defective one)
    caps = [np.ones(1, dtype=complex)] + [np.eye(2).reshape(-1).astype(complex)] * (N - 1) + [np.ones(1, dtype=complex)]
    for k, c in enumerate(caps):
        pt.set_cap_tensor(k, c)
    return pt


def scenarios():
    """list of dicts: api, fault, k"""
    sc = []
    for k in range(N + 1):
        for f in ("hamiltonian", "gamma", "lindblad", "missing-cap", "bad-mpo"):
            sc.append(dict(api="compute_dynamics", fault=f, k=k))
        for f in ("hamiltonian", "field_eom", "missing-cap", "bad-mpo"):
            sc.append(dict(api="compute_dynamics_with_field", fault=f, k=k))
        for f in ("hamiltonian", "target", "prop-derivative", "bad-mpo", "missing-cap"):
            sc.append(dict(api="state_gradient", fault=f, k=k))
        for f in ("hamiltonian", "gamma", "lindblad"):
            sc.append(dict(api="Tempo", fault=f, k=k))
        for f in ("hamiltonian", "field_eom"):
            sc.append(dict(api="MeanFieldTempo", fault=f, k=k))
        sc.append(dict(api="PtTempo", fault="correlation", k=k))
        sc.append(dict(api="GibbsTempo", fault="spectral-density", k=k))
        sc.append(dict(api="PtTebd", fault="bad-mpo", k=k))
        sc.append(dict(api="PtTebd-multithread", fault="bad-mpo", k=k))
        sc.append(dict(api="TwoTimeBathCorrelations", fault="hamiltonian", k=k))
        sc.append(dict(api="compute_correlations", fault="hamiltonian", k=k))
        for a in ("compute_dynamics", "compute_dynamics_with_field", "Tempo", "MeanFieldTempo", "compute_correlations",
                  "TwoTimeBathCorrelations"):
            sc.append(dict(api=a, fault="hamiltonian-base", k=k))
    apis = sorted({s["api"] for s in sc})
    for a in apis:
        sc.append(dict(api=a, fault="none", k=N))
    # the output stream breaks after k successful writes of the progress report
    for a in ("compute_dynamics", "compute_dynamics_with_field", "Tempo", "MeanFieldTempo", "PtTempo", "GibbsTempo", "PtTebd",
              "compute_correlations", "state_gradient"):
        for k in (0, 1, 2, 3, 5):
            sc.append(dict(api=a, fault="stdout-breaks", k=k))
    # computations of zero steps (they may raise; nothing may be left behind) and a chain computation continued once
    for a in ("compute_dynamics", "compute_dynamics_with_field", "Tempo", "MeanFieldTempo", "PtTempo", "PtTebd", "PtTebd-multithread"):
        sc.append(dict(api=a, fault="zero-steps", k=0))
    for f in ("none", "bad-mpo"):
        for k in (1, 3):
            sc.append(dict(api="PtTebd-twice", fault=f, k=k))
            sc.append(dict(api="PtTebd-multithread-twice", fault=f, k=k))
    return sc


def fault_cases(tier):
    cases = []
    for s in scenarios():
        for p in PROGRESS:
            cases.append(dict(s, progress=p, fire_at=None))
            if p in ("bar", None) and s["k"] in (2, N):
                cases.append(dict(s, progress=p, fire_at=2))   # the timer fires during the run
    return cases


def _run_api(case):
    """executes the library call; returns normally or raises"""
    import oqupy
    from oqupy import operators
    sx, sz, sm, sp = (operators.sigma(x) for x in ("x", "z", "-", "+"))
    api, fault, k, prog = case["api"], case["fault"], case["k"], case["progress"]
    rho0 = operators.spin_dm("up")
    gH = _at_step(k, exc=BoomBase if fault == "hamiltonian-base" else Boom) if fault in ("hamiltonian", "hamiltonian-base") \
        else (lambda t: None)
    gG = _at_step(k) if fault == "gamma" else (lambda t: None)
    gL = _at_step(k) if fault == "lindblad" else (lambda t: None)
    gF = _at_step(k) if fault == "field_eom" else (lambda t: None)

    def H(t):
        gH(t)
        return 0.5 * sx + 0.2 * np.cos(t) * sz

    def gam(t):
        gG(t)
        return 0.1

    def lop(t):
        gL(t)
        return sm
    def tsys():
        ARMED[0] = False
        try:
            return oqupy.TimeDependentSystem(H, gammas=[gam], lindblad_operators=[lop])
        finally:
            ARMED[0] = True
    ARMED[0] = True
    bath = oqupy.Bath(0.5 * sz, oqupy.PowerLawSD(0.1, 1.0, 3.0, temperature=0.3))
    par = oqupy.TempoParameters(dt=DT, epsrel=1e-6, dkmax=2, subdiv_limit=None)
    end = (N + 0.5) * DT
    zero = fault == "zero-steps"
    if zero:
        end = 0.3 * DT              # less than one step
    ptk = "missing-cap" if fault == "missing-cap" else ("bad-mpo" if fault == "bad-mpo" else "ok")
    if api == "compute_dynamics":
        return oqupy.compute_dynamics(tsys(), rho0, process_tensor=_pt(ptk, k), subdiv_limit=None, progress_type=prog,
                                      **(dict(num_steps=0) if zero else {}))
    if api == "compute_correlations":
        return oqupy.compute_correlations(tsys(), _pt("ok", k), sx, sz, 1, slice(None), initial_state=rho0, progress_type=prog)
    if api in ("compute_dynamics_with_field", "MeanFieldTempo"):
        def Hf(t, a):
            gH(t)
            return 0.5 * sz + 0.3 * (a * sp + np.conj(a) * sm)

        def eom(t, st_, a):
            gF(t)
            return -0.2j * a - 0.1 * a - 0.3j * np.trace(st_[0] @ sm)
        # constructors evaluate the callables at t=1.0 for input checks: build with guards disarmed
        ARMED[0] = False
        mfs = oqupy.MeanFieldSystem([oqupy.TimeDependentSystemWithField(Hf)], eom)
        ARMED[0] = True
        if api == "MeanFieldTempo":
            return oqupy.MeanFieldTempo(mfs, [bath], par, [rho0], 0.3 + 0.1j).compute(end, progress_type=prog)
        return oqupy.compute_dynamics_with_field(mfs, 0.3 + 0.1j, [_pt(ptk, k)], initial_state_list=[rho0],
                                                 subdiv_limit=None, progress_type=prog, **(dict(num_steps=0) if zero else {}))
    if api == "state_gradient":
        marker = 7.0
        params = np.linspace(0.2, 1.0, 2 * N).reshape(2 * N, 1)
        if fault == "hamiltonian" and k < N:
            params[2 * k, 0] = marker

        def Hp(u):
            if u == marker:
                raise Boom("injected in parameterised Hamiltonian")
            return 0.5 * u * sx + 0.2 * sz
        kw = {}
        if fault == "prop-derivative":
            calls = [0]
            from scipy.linalg import expm_frechet
            dL = -1j * 0.5 * (np.kron(sx, np.eye(2)) - np.kron(np.eye(2), sx.T))

            def derivs(dt_, p):
                calls[0] += 1
                if calls[0] > 2 * k and k < N:
                    raise Boom("injected in propagator derivative")
                L = -1j * (np.kron(Hp(p[0]), np.eye(2)) - np.kron(np.eye(2), Hp(p[0]).T))
                return [expm_frechet(L * dt_ / 2, dL * dt_ / 2, compute_expm=False)]
            kw["propagator_derivatives"] = derivs
        psys = oqupy.ParameterizedSystem(Hp, **kw)
        if fault == "target" and k < N:
            def target(rho):
                raise Boom("injected in target derivative")
        else:
            target = rho0.T.copy()
        return oqupy.state_gradient(psys, rho0, target, [_pt(ptk, k)], params, progress_type=prog)
    if api == "Tempo":
        return oqupy.Tempo(tsys(), bath, par, rho0, 0.0).compute(end, progress_type=prog)
    if api == "PtTempo":
        g = _after_calls(40 * (k + 1)) if fault == "correlation" and k < N else (lambda: None)

        def C(t):
            g()
            return 0.2 * np.exp(-abs(t)) * (np.cos(t) - 0.5j * np.sin(t))
        b2 = oqupy.Bath(0.5 * sz, oqupy.CustomCorrelations(C))
        return oqupy.pt_tempo_compute(b2, 0.0, end, oqupy.TempoParameters(dt=DT, epsrel=1e-3, dkmax=2), progress_type=prog)
    if api == "GibbsTempo":
        g = _after_calls(300 * (k + 1)) if fault == "spectral-density" and k < N else (lambda: None)

        def j(w):
            g()
            return 0.2 * w
        b3 = oqupy.Bath(np.diag([0.5, -0.5]), oqupy.CustomSD(j, cutoff=2.0, cutoff_type="gaussian", temperature=0.5))
        return oqupy.gibbs_tempo_compute(oqupy.System(0.5 * sx), b3, oqupy.GibbsParameters(N + 2, 1e-6), progress_type=prog)
    if api == "TwoTimeBathCorrelations":
        pt2 = oqupy.pt_tempo_compute(bath, 0.0, end, oqupy.TempoParameters(dt=DT, epsrel=1e-6, dkmax=2), progress_type="silent")
        bd = oqupy.TwoTimeBathCorrelations(tsys(), bath, pt2, initial_state=rho0)
        return bd.occupation(1.3, 1.0, progress_type=prog)
    if api.startswith("PtTebd"):
        chain = oqupy.SystemChain([2, 2])
        chain.add_site_hamiltonian(0, 0.5 * sx)
        chain.add_nn_hamiltonian(0, 0.3 * sz, sz)
        teb = oqupy.PtTebd(oqupy.AugmentedMPS([rho0, rho0]), chain, [_pt(ptk, k), None],
                           oqupy.PtTebdParameters(dt=DT, epsrel=1e-8, order=2), dynamics_sites=[0],
                           backend_config={"parallel": "multithread"} if "multithread" in api else None)
        if api.endswith("-twice"):
            teb.compute(k, progress_type=prog)      # continued by a second call (a defective tensor sits at step k)
            return teb.compute(N, progress_type=prog)
        return teb.compute(0 if zero else N, progress_type=prog)
    raise HarnessError("unknown api " + api)


class _FailingOut(io.StringIO):
    """an output stream that breaks after n successful writes (closed pipe, full disk): the failure then comes from the
    progress report's own print"""

    def __init__(self, n_ok):
        super().__init__()
        self.n_ok = n_ok
        self.count = 0

    def write(self, text):
        self.count += 1
        if self.count > self.n_ok:
            raise OSError("injected: output stream broken")
        return super().write(text)


class _FiringTimer(FakeTimer):
    """fires itself synchronously when it is the j-th timer started (models the timer elapsing mid-computation)"""
    fire_at = None
    started_count = 0

    def start(self):
        super().start()
        type(self).started_count += 1
        if type(self).fire_at is not None and type(self).started_count == type(self).fire_at:
            self.fire()


def run_fault(case):
    import oqupy.util as U
    out = Outcome()
    api, fault, k, prog = case["api"], case["fault"], case["k"], case["progress"]
    FakeTimer.reset()
    ARMED[0] = False
    _FiringTimer.fire_at = case.get("fire_at")
    _FiringTimer.started_count = 0
    saved_timer = U.Timer
    U.Timer = _FiringTimer
    old_stdout = sys.stdout
    sys.stdout = buf = (_FailingOut(k) if fault == "stdout-breaks" else io.StringIO())
    before = set(threading.enumerate())
    raised = None
    try:
        try:
            _run_api(case)
        except HarnessError:
            raise
        except BaseException as exc:     # every failure kind is expected here; the verdict is about what is left behind
            raised = exc
        live = FakeTimer.live_timers()
        n_live = len(live)
        rearmed = False
        if live:
            # what would the armed timer do?  fire it while the harness still owns the timer class
            n0 = len(FakeTimer.created)
            try:
                live[0].fire()
            except Exception:
                pass
            rearmed = len(FakeTimer.created) > n0
        wrote = len(buf.getvalue())
        for t in FakeTimer.created:
            t.cancelled = True
    finally:
        sys.stdout = old_stdout
        U.Timer = saved_timer
    new_threads = [t for t in threading.enumerate() if t not in before and t.is_alive()]
    expect_raise = fault != "none" and not (k >= N and fault in ("hamiltonian", "gamma", "lindblad", "field_eom", "target",
                                                                 "prop-derivative", "correlation", "spectral-density", "bad-mpo"))
    n_created = len(FakeTimer.created)
    # non-trivial: the failure happened after the computation had armed a progress timer (not in a constructor's input check)
    out.nontrivial = bool(raised is not None and k > 0 and prog in ("bar", None) and n_created > 0)
    if raised is not None and prog in ("bar", None):
        out.label("raised-after-timer-armed" if n_created else "raised-before-any-timer")
    out.label("api=" + api, "fault=" + fault, "progress=" + str(prog), "raised" if raised is not None else "returned",
              "timer-fired-mid-run" if case.get("fire_at") else "timer-never-fired")
    if n_live:
        out.fail(f"timer-left-armed:{api}", f"{n_live} armed timer(s) after {api} "
                 f"{'raised ' + type(raised).__name__ if raised is not None else 'returned'} (fault={fault}, step={k}, progress={prog})"
                 + ("; when it fires it prints and re-arms itself" if rearmed else ""))
    if new_threads:
        out.fail(f"thread-left-alive:{api}", f"{[t.name for t in new_threads]}")
    return out


# ---------------------------------------------------------------- interleavings

def _interleave_scenario(kind):
    import oqupy.util as U
    targets = {U.ProgressBar.update.__code__, U.ProgressBar.exit.__code__, U.ProgressBar.enter.__code__}

    def scenario(prefix):
        FakeTimer.reset()
        saved = U.Timer
        U.Timer = FakeTimer
        old = sys.stdout
        sys.stdout = io.StringIO()
        try:
            pb = U.ProgressBar(5, "t")
            pb.enter()
            pb.update(1)
            armed = [t for t in FakeTimer.created if t.live()]
            if len(armed) != 1:
                raise HarnessError(f"expected one armed timer, found {len(armed)}")
            t = armed[0]
            t.fired = True                       # it elapses now: its callback runs in the 'timer thread'
            s = Scheduler(targets, prefix, grace=0.004)
            th1 = s.spawn("callback", t.function)
            if kind == "exit":
                th2 = s.spawn("caller", pb.exit)
            else:
                def caller():
                    pb.update(2)
                    pb.exit()
                th2 = s.spawn("caller", caller)
            choices = s.drive(["callback", "caller"])
            th1.join(5)
            th2.join(5)
            if th1.is_alive() or th2.is_alive():
                raise HarnessError("scenario threads did not finish")
        finally:
            sys.stdout = old
            U.Timer = saved
        live = FakeTimer.live_timers()
        errs = {k: type(v).__name__ for k, v in s.errors.items()}
        return choices, dict(leaked=len(live), errors=errs)
    return scenario


def interleave_cases(tier):
    big = tier == "thorough"
    return [{"kind": "exit", "max": 5000}, {"kind": "update-then-exit", "max": 20000 if big else 1500}]


def run_interleave(case):
    out = Outcome()
    try:
        results, complete = explore(_interleave_scenario(case["kind"]), max_schedules=case["max"])
    except RuntimeError as exc:
        raise HarnessError(str(exc))
    bad = [(sch, v) for sch, v in results if v["leaked"] or v["errors"]]
    out.units = len(results)
    preempt = sum(1 for sch, v in results if len(set(sch)) > 1 and any(a != b for a, b in zip(sch[:-1], sch[1:])))
    out.nontrivial = True
    out.nontrivial_units = preempt
    out.label("scenario=" + case["kind"], "complete" if complete else "truncated")
    out.metric("schedules", len(results))
    if bad:
        sch, v = min(bad, key=lambda b: len(b[0]))
        what = "timer-left-armed" if v["leaked"] else "exception:" + ",".join(sorted(v["errors"].values()))
        out.fail(f"interleaving/{what}:{case['kind']}",
                 f"{len(bad)} of {len(results)} interleavings end with an armed timer or an error; e.g. schedule {sch}")
    return out


# ---------------------------------------------------------------- real threads in a child interpreter

CHILD = r'''
import sys, io, threading
sys.path.insert(0, sys.argv[1])
import warnings; warnings.simplefilter("ignore")
import numpy as np, oqupy
from oqupy import operators
api = sys.argv[2]
sx, sz = operators.sigma("x"), operators.sigma("z")
calls = [0]
def H(t):
    calls[0] += 1
    if calls[0] > 9: raise RuntimeError("boom")
    return 0.5 * sx
bath = oqupy.Bath(0.5 * sz, oqupy.PowerLawSD(0.1, 1.0, 3.0, temperature=0.3))
par = oqupy.TempoParameters(dt=0.1, epsrel=1e-6, dkmax=2, subdiv_limit=None)
pt = oqupy.pt_tempo_compute(bath, 0.0, 0.65, par, progress_type="silent")
calls[0] = 0
tsys = oqupy.TimeDependentSystem(H)
calls[0] = 0
old = sys.stdout; sys.stdout = io.StringIO()
raised = False
try:
    if api == "compute_dynamics":
        oqupy.compute_dynamics(tsys, operators.spin_dm("up"), process_tensor=pt, subdiv_limit=None)
    else:
        oqupy.Tempo(tsys, bath, par, operators.spin_dm("up"), 0.0).compute(0.65)
except RuntimeError:
    raised = True
finally:
    sys.stdout = old
alive = [t for t in threading.enumerate() if isinstance(t, threading.Timer) and t.is_alive() and not t.daemon
         and not t.finished.is_set()]
print("RAISED", raised, "ALIVE_TIMERS", len(alive))
for t in alive: t.cancel()
'''


def real_cases(tier):
    return [{"api": "compute_dynamics"}, {"api": "Tempo"}]


def run_real(case):
    out = Outcome()
    out.nontrivial = True
    out.label("api=" + case["api"])
    r = subprocess.run([sys.executable, "-c", CHILD, REPO_DIR, case["api"]], capture_output=True, text=True, timeout=300,
                       env=dict(os.environ, PYTHONHASHSEED="0"))
    if r.returncode != 0 or "ALIVE_TIMERS" not in r.stdout:
        raise HarnessError("child failed: " + r.stderr[-600:])
    toks = r.stdout.split()
    if toks[1] != "True":
        raise HarnessError("fault was not reached in the child")
    n = int(toks[3])
    if n:
        out.fail("real-timer-thread-alive:" + case["api"], f"{n} live non-daemon Timer thread(s) after {case['api']} raised "
                 "(default progress): would keep printing and block interpreter exit")
    return out


def subs(tier):
    return [
        Sub("failure-points", run_fault, cases=fault_cases, exhaustive=True, budget={"quick": 1, "thorough": 1}),
        Sub("interleavings", run_interleave, cases=interleave_cases, exhaustive=False, budget={"quick": 1, "thorough": 1}, nproc=2),
        Sub("real-threads", run_real, cases=real_cases, exhaustive=True, budget={"quick": 1, "thorough": 1}, nproc=2),
    ]
