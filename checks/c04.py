"""C04 - every reported state is a physical density matrix."""
import numpy as np
from hypothesis import strategies as st

from vlib import chaingen, gens, mfgen, sysgen, tempogen
from vlib.refs import corr as R
from vlib.runner import Outcome, Sub

ID = "C04"
LEVEL = "exploration"
RULE = ("Hypothesis-generated problems emphasising strong coupling (alpha up to 2, conditioned to D<=3.5), T in {0, small, large}, "
        "rank-1 and rank-deficient initial states, dissipative and time-dependent systems, all memory settings, unique both, "
        "d=2..4; methods TEMPO, PT-TEMPO+compute_dynamics, mean-field TEMPO (1..2 systems), PT-TEBD (2..4 sites with PT-TEMPO / "
        "ancilla tensors on sites), Gibbs. Invariants at every step: |tr rho-1|<=tol, ||rho-rho^+||<=tol, lambda_min>=-tol only "
        "when no memory cut-off is in force; PT-TEBD norm=1 and traces of recorded site states = 1; Gibbs state normalised, "
        "Hermitian, positive. A separate frontier sub-check explores D in (3.5,100] (known finding F-04 for D > 10). Non-trivial: alpha>=0.3 "
        "(after conditioning: D>=0.5) or Lindblad terms present; distinct = distinct canonical JSON.")
TECHNIQUE = "Hypothesis property-based testing of invariants (trace, Hermiticity, positivity, norm) over generated inputs at every step"
LEVEL_TEXT = ("Validity predicate on every reported state of five methods over generated strong-coupling, rank-deficient and "
              "dissipative inputs; the ill-conditioned region D>5 is explored separately and its loss of trace/boundedness is "
              "recorded as known finding F-04.")
LEVEL_NOTE = ("tol = c_T (N+1) eps + 1e-7 (c_T=1000 where PT-TEMPO is involved, 100 otherwise); positivity only with full memory; "
              "frontier failures are matched against known_findings.txt by their D-decade signature.")
ASSUMPTIONS = ["conditioning bound D<=3.5 for the main sub-checks (DESIGN sections 4 and 10.7)",
               "positivity is only claimed when no memory cut-off is applied"]


def physical(out, tag, states, tol, positive):
    st_ = np.asarray(states)
    if st_.ndim == 2:
        st_ = st_[None]
    if not np.all(np.isfinite(st_)):
        out.fail(tag + "/not-finite", "NaN or inf in reported states")
        return
    tr = np.abs(np.trace(st_, axis1=1, axis2=2) - 1).max()
    he = np.abs(st_ - st_.conj().transpose(0, 2, 1)).max()
    out.metric(tag + "/trace/tol", tr / tol)
    out.metric(tag + "/herm/tol", he / tol)
    if tr > tol:
        out.fail(tag + "/trace", f"|tr-1|={tr:.3e} tol={tol:.3e}")
    if he > tol:
        out.fail(tag + "/hermiticity", f"dev={he:.3e} tol={tol:.3e}")
    if positive:
        lam = min(np.linalg.eigvalsh((x + x.conj().T) / 2).min() for x in st_)
        out.metric(tag + "/neg/tol", max(0.0, -lam) / tol)
        if lam < -tol:
            out.fail(tag + "/positivity", f"lambda_min={lam:.3e} tol={tol:.3e}")


@st.composite
def s_tempo(draw, tier):
    d = draw(st.integers(2, 4))
    b = draw(tempogen.bath_spec(d, distinct_if_rotated=False, temps=[0.0, 0.0, 0.05, 0.3, 5.0, 50.0]))
    if b["sd"]["type"] == "powerlaw":
        b["sd"]["alpha"] = draw(st.sampled_from([0.3, 0.5, 1.0, 1.5, 2.0]))
    return {"d": d, "bath": b, "sys": draw(sysgen.sys_spec(d)),
            "rho0": draw(gens.dm_spec(d, max_rank=draw(st.sampled_from([1, 1, 2, d])))),
            "par": draw(tempogen.params_spec(d, tier, n_min=2, eps=[1e-7, 1e-8])),
            "unique": draw(st.booleans()), "t0": draw(st.sampled_from([0.0, 0.3])),
            "mf": draw(st.integers(0, 3)) == 0, "a0": draw(gens.cnum(1, 4)), "B": draw(gens.cmatrix(d, d, 1, 2))}


def run_tempo(case):
    import oqupy
    out = Outcome()
    d, b, p, t0 = case["d"], case["bath"], case["par"], case["t0"]
    bath, sd, D, O, V = tempogen.build_bath(b, p, d)
    system = sysgen.build_system(case["sys"])
    rho0 = gens.build_dm(case["rho0"])
    rank = int(np.sum(np.linalg.eigvalsh(rho0) > 1e-12))
    sl = sysgen.subdiv_limit(case["sys"])
    par = tempogen.build_params(p, subdiv_limit=sl)
    t_end = tempogen.end_time(p, t0)
    cut = tempogen.cutoff_active(p)
    out.nontrivial = D >= 0.5 or bool(case["sys"]["lind"])
    out.label(f"d={d}", f"rank={rank}" if rank < d else "full-rank", "cutoff-active" if cut else "full-memory",
              "D<0.5" if D < 0.5 else ("D<2" if D < 2 else "D<=3.5"), case["sys"]["kind"],
              "lindblad" if case["sys"]["lind"] else "no-lindblad", "T=0" if sd["T"] == 0 else "T>0")
    dyn = oqupy.Tempo(system, bath, par, rho0, t0, unique=case["unique"]).compute(t_end, progress_type="silent")
    physical(out, "tempo", dyn.states, tempogen.trunc_tol(p, 100.0), not cut)
    pt = oqupy.pt_tempo_compute(bath, t0, t_end, par, unique=case["unique"], progress_type="silent")
    dyn2 = oqupy.compute_dynamics(system, rho0, process_tensor=pt, start_time=t0, subdiv_limit=sl,
                                  progress_type="silent")
    physical(out, "pt-tempo", dyn2.states, tempogen.trunc_tol(p, 1000.0), not cut)
    if case["mf"]:
        out.label("mean-field")
        B = gens.to_c(case["B"])
        H0 = gens.herm(case["sys"]["H0"])
        sysf = oqupy.TimeDependentSystemWithField(lambda t, a: H0 + 0.3 * (a * B + np.conj(a) * B.conj().T))
        mfs = oqupy.MeanFieldSystem([sysf, sysf], lambda t, st_, a: (-0.2 + 0.5j) * a + 0.2 * t
                                    + 0.25 * np.trace(st_[0] @ B) + 0.25 * np.trace(st_[1] @ B))
        o_b = np.array(b["o"], dtype=float)[::-1].copy()
        o_b[0] += 0.5
        bath2 = tempogen.build_bath(dict(b, o=list(o_b), V={"kind": "identity"}), p, d)[0]   # a second, different bath
        dm = oqupy.MeanFieldTempo(mfs, [bath, bath2], par, [rho0, rho0.T.copy()], complex(*case["a0"]),
                                  start_time=t0, unique=case["unique"]).compute(t_end, progress_type="silent")
        for i in range(2):
            physical(out, "mean-field", dm.system_dynamics[i].states, tempogen.trunc_tol(p, 100.0), not cut)
    return out


@st.composite
def s_tebd(draw, tier):
    N = draw(st.integers(2, 4))
    fam = draw(st.sampled_from(["uncoupled", "two-site", "commuting", "generic"]))
    if fam == "generic":
        ch = draw(chaingen.chain_spec("two-site", N=N, dims=(2,)))
        n = draw(st.integers(3, 4))
        # extend the two-site spec to n sites with generic couplings
        ch2 = draw(chaingen.chain_spec("two-site", N=N, dims=(2,)))
        ch = {"family": "generic", "dims": [2] * n,
              "sites": (ch["sites"] + ch2["sites"])[:n], "nn": (ch["nn"] + ch2["nn"] + ch["nn"])[:n - 1],
              "pts": (ch["pts"] + ch2["pts"])[:n], "rhos": (ch["rhos"] + ch2["rhos"])[:n]}
    else:
        ch = draw(chaingen.chain_spec(fam, n_min=2, n_max=4, dims=(2,), N=N))
    return {"N": N, "dt": draw(st.sampled_from([0.05, 0.1, 0.2])), "order": draw(st.sampled_from([1, 2])),
            "eps": draw(st.sampled_from([1e-8, 1e-10])), "chain": ch,
            "tempo_site": draw(st.integers(0, len(ch["dims"]) - 1)) if draw(st.booleans()) else None,
            "alpha": draw(st.sampled_from([0.1, 0.3]))}


def run_tebd(case):
    import oqupy
    out = Outcome()
    N, dt, spec = case["N"], case["dt"], case["chain"]
    n = len(spec["dims"])
    chain = chaingen.build_chain(spec)
    envs = chaingen.build_envs(spec, N, dt)
    pts = [None if e is None else e["pt"] for e in envs]
    if case["tempo_site"] is not None:
        out.label("pt-tempo-on-site")
        corr = oqupy.PowerLawSD(alpha=case["alpha"], zeta=1.0, cutoff=3.0, temperature=0.3)
        pts[case["tempo_site"]] = oqupy.pt_tempo_compute(
            oqupy.Bath(np.diag([0.5, -0.5]), corr), 0.0, (N + 0.5) * dt,
            oqupy.TempoParameters(dt=dt, epsrel=1e-9), progress_type="silent")
    record = list(range(n)) + [(0, n - 1)] + ([tuple(range(n))] if n <= 3 else [])
    teb = oqupy.PtTebd(oqupy.AugmentedMPS(chaingen.initial_states(spec)), chain, pts,
                       oqupy.PtTebdParameters(dt=dt, epsrel=case["eps"], order=case["order"]),
                       dynamics_sites=record)
    res = teb.compute(N, progress_type="silent")
    out.nontrivial = n >= 3 or any(p is not None for p in pts)
    out.label("family=" + spec["family"], f"sites={n}", f"order={case['order']}")
    tol = 1000.0 * (N + 1) * case["eps"] * n + 1e-7
    nd = np.abs(np.array(res["norm"]) - 1).max()
    out.metric("tebd/norm/tol", nd / tol)
    if nd > tol:
        out.fail("tebd/norm", f"|norm-1|={nd:.3e} tol={tol:.3e}")
    for s in record:
        physical(out, "tebd", res["dynamics"][s].states, tol, True)
    return out


@st.composite
def s_gibbs(draw, tier):
    d = draw(st.integers(2, 4))
    return {"d": d, "o": draw(tempogen.eigenvalues(d)), "H": draw(gens.herm_spec(d, 2, 4)),
            "diagH": draw(st.booleans()),
            "sd": draw(gens.powerlaw_spec(temps=[0.05, 0.2, 1.0, 5.0], zetas=[0.5, 1.0, 2.0, 3.0], float_zeta=False)),
            "n": draw(st.integers(2, 16)), "eps": draw(st.sampled_from([1e-8, 1e-10]))}


def run_gibbs(case):
    import oqupy
    out = Outcome()
    d = case["d"]
    o = np.array(case["o"], dtype=float)
    sd = dict(case["sd"])
    lam1 = R.reorganisation(gens.scaled_spec(sd, 1.0 / sd["alpha"]))
    G = lam1 * max(o ** 2) / sd["T"]
    if sd["alpha"] * G > 8.0:
        sd["alpha"] = 8.0 / G
    H = gens.herm(case["H"])
    if case["diagH"]:
        H = np.diag(np.diag(H).real).astype(complex)
    out.nontrivial = sd["alpha"] > 0 and len(set(np.round(o ** 2, 9))) > 1
    out.label(f"d={d}", "diagonal-H" if case["diagH"] else "generic-H", "guard-crossed" if gens.guard_crossed(sd) else "no-guard")
    st_ = oqupy.gibbs_tempo_compute(oqupy.System(H), oqupy.Bath(np.diag(o), gens.build_corr(sd)),
                                    oqupy.GibbsParameters(case["n"], case["eps"]), progress_type="silent")
    physical(out, "gibbs", st_, 1000.0 * (case["n"] + 1) * case["eps"] + 1e-7, True)
    return out


@st.composite
def s_frontier(draw, tier):
    d = draw(st.integers(2, 3))
    return {"d": d, "bath": draw(tempogen.bath_spec(d, rotated=False, custom_weight=0.0,
                                                    temps=[0.0, 1.0, 20.0], zetas=[1.0, 2.0])),
            "sys": draw(sysgen.sys_spec(d, allow_td=False, allow_lind=False)), "rho0": draw(gens.dm_spec(d)),
            "par": draw(tempogen.params_spec(d, tier, n_min=2, n_max=6, eps=[1e-8])),
            "Dtarget": draw(st.sampled_from([4.5, 8.0, 15.0, 30.0, 60.0, 100.0]))}


def run_frontier(case):
    """D in (3.5, 100]: loss of trace / Hermiticity / boundedness is finding F-04; failures are classified by the
    decade of D so that a failure at D<=5 or of another kind is still reported as a violation."""
    import oqupy
    out = Outcome()
    d, b, p = case["d"], case["bath"], case["par"]
    # scale the coupling UP to the requested D
    sd0 = b["sd"]
    o = np.array(b["o"], dtype=float)
    D0 = gens.conditioning_D(sd0, float(o.max() - o.min()), p["dt"], p["N"], p["K"], gens.tau_value(p["tau"], p["dt"]))
    if D0 <= 0:
        return out
    sd = gens.scaled_spec(sd0, case["Dtarget"] / D0)
    bath = oqupy.Bath(np.diag(o).astype(complex), gens.build_corr(sd))
    system = sysgen.build_system(case["sys"])
    rho0 = gens.build_dm(case["rho0"])
    par = tempogen.build_params(p)
    dyn = oqupy.Tempo(system, bath, par, rho0, 0.0).compute(tempogen.end_time(p), progress_type="silent")
    st_ = np.array(dyn.states)
    Dt = case["Dtarget"]
    out.nontrivial = True
    dec = "D3.5-5" if Dt <= 5 else ("D5-10" if Dt <= 10 else ("D10-30" if Dt <= 30 else "D30-100"))
    out.label(dec)
    scale = max(1.0, float(np.abs(st_).max())) if np.all(np.isfinite(st_)) else float("inf")
    tol = tempogen.trunc_tol(p, 1000.0)
    cut = tempogen.cutoff_active(p)
    out.label("cutoff-active" if cut else "full-memory")
    # Boundedness (|rho_ij| <= 1) is a consequence of positivity, which the property claims for full memory only: with
    # a memory cut-off in force the truncated influence functional is not positive definite and coherences may grow
    # with exact arithmetic (seen at D=8, dkmax=1, add_correlation_time=1.5dt: max|rho_ij|=15.5 for every epsrel
    # 1e-6..1e-14 with |tr-1| = 3e-15) - not a violation.  Non-finite entries are a failure in every case.
    if not np.all(np.isfinite(st_)) or (scale > 10.0 and not cut):
        out.fail("unbounded:" + dec, f"max|rho_ij|={scale:.3e} at D={Dt}")
        return out
    if scale > 10.0:
        out.label("cutoff-growth>10")
    tr = np.abs(np.trace(st_, axis1=1, axis2=2) - 1).max()
    he = np.abs(st_ - st_.conj().transpose(0, 2, 1)).max()
    if tr > tol * 100 * scale:
        out.fail("trace:" + dec, f"|tr-1|={tr:.3e} at D={Dt} (max|rho_ij|={scale:.3e})")
    if he > tol * 100 * scale:
        out.fail("hermiticity:" + dec, f"dev={he:.3e} at D={Dt} (max|rho_ij|={scale:.3e})")
    return out


def subs(tier):
    return [
        Sub("tempo", run_tempo, strategy=s_tempo, budget={"quick": 240, "thorough": 2400}),
        Sub("pt-tebd", run_tebd, strategy=s_tebd, budget={"quick": 96, "thorough": 900}),
        Sub("gibbs", run_gibbs, strategy=s_gibbs, budget={"quick": 160, "thorough": 1500}),
        Sub("frontier", run_frontier, strategy=s_frontier, budget={"quick": 48, "thorough": 400}),
    ]
