"""C09 - mean-field evolution agrees across methods and integrates the field correctly."""
import numpy as np
from hypothesis import strategies as st

from vlib import gens, mfgen, tempogen
from vlib.runner import Outcome, Sub

ID = "C09"
LEVEL = "exploration"
RULE = ("Hypothesis-generated mean-field problems: 1..3 TimeDependentSystemWithField of dimension 2..3, H(t,a)=H0+cos(nu t)H1+"
        "g(aB+a*B^+), optional time-dependent dissipators, field equations from the grammar c0+c1 t+(-kappa+i omega)a+c3 t a+"
        "sum c_k Tr(rho_k A_k)+c4 sin(nu t), initial field, start_time in {0, 1.37, -0.8}, dt, N<=6, baths, dkmax, "
        "record_all both. Oracles: (i) MeanFieldTempo vs compute_dynamics_with_field with PT-TEMPO tensors at every time; "
        "(ii) Heun validity predicate recomputed from each method's returned states/times/fields; (iii) closed form "
        "a(t)=a0+c0(t-t0)+c1(t^2-t0^2)/2 for f=c0+c1 t; (iv) field-independent members equal plain Tempo runs; "
        "(v) record_all=False equals the last entry. Non-trivial: field equation explicitly time dependent or start_time != 0; "
        "distinct = distinct canonical JSON.")
TECHNIQUE = "Hypothesis property-based differential testing + validity predicate (Heun rule) + closed form"
LEVEL_TEXT = ("Generated mean-field problems are run through both library routes and compared at every time; the returned "
              "field is re-derived step by step with the Heun rule from the returned states and times (1e-12), and against "
              "the closed form for equations linear in time. Exploration at small sizes, conditioned baths.")
LEVEL_NOTE = "Truncation tolerance c_T=100 (N+1) eps max(1,|a|) + 1e-7 for the method comparison (calibrated in DESIGN section 6)."
ASSUMPTIONS = ["TEMPO inputs are conditioned (D <= 3.5) and size-coupled as in DESIGN section 4"]


@st.composite
def s_case(draw, tier):
    mf = draw(mfgen.mf_spec(tier))
    # stationary fields (the field and its derivative are bit-identical from step to step) under an explicitly time
    # dependent Hamiltonian: "zero" = field exactly 0 with an equation of motion proportional to the field,
    # "frozen" = equation of motion identically 0 with a non-zero field
    stationary = draw(st.sampled_from([None, None, None, "zero", "frozen"]))
    if stationary:
        e = mf["eom"]
        e.update(c0=[0.0, 0.0], c1=[0.0, 0.0], c3=0.0, c4=0.0, cs=[0.0] * len(mf["systems"]), linear_only=False)
        if stationary == "zero":
            mf["a0"] = [0.0, 0.0]
        else:
            e.update(kappa=0.0, omega=0.0)
            if mf["a0"] == [0.0, 0.0]:
                mf["a0"] = [0.0, 0.25]
        for sspec in mf["systems"]:
            if sspec["nu"] == 0.0:
                sspec["nu"] = 1.0
        mf["stationary"] = stationary
    # type of the value the user's field equation returns (all are accepted by MeanFieldSystem)
    mf["eom"]["ret"] = draw(st.sampled_from(["complex", "complex", "numpy-scalar", "array-0d", "array-1"]))
    dmax = max(s["d"] for s in mf["systems"])
    p = draw(tempogen.params_spec(dmax, tier, n_min=2, n_max=6, eps=[1e-7, 1e-8, 1e-9]))
    baths = [draw(tempogen.bath_spec(s["d"], rotated=False, custom_weight=0.0,
                                     temps=[0.0, 0.5, 5.0], zetas=[1.0, 2.0, 3.0])) for s in mf["systems"]]
    return {"mf": mf, "par": p, "baths": baths, "t0": draw(st.sampled_from([0.0, 1.37, -0.8])),
            "unique": draw(st.booleans()), "sampled": draw(st.booleans())}


def run_case(case):
    import oqupy
    out = Outcome()
    mf, p, t0 = case["mf"], case["par"], case["t0"]
    dt, N = p["dt"], p["N"]
    mfs = mfgen.build_mf_system(mf)
    rhos = mfgen.initial_states(mf)
    a0 = complex(*mf["a0"])
    baths = [tempogen.build_bath(b, p, s["d"])[0] for b, s in zip(case["baths"], mf["systems"])]
    sl = None if case.get("sampled") else 256      # sampled (dt/4, 3dt/4) or integrated system propagators
    par = tempogen.build_params(p, subdiv_limit=sl)
    t_end = tempogen.end_time(p, t0)
    td = mfgen.eom_time_dependent(mf)
    out.nontrivial = td or t0 != 0 or bool(mf.get("stationary"))
    out.label("stationary-field=" + str(mf.get("stationary")), "eom-returns=" + mf["eom"].get("ret", "complex"))
    out.label("eom-time-dependent" if td else "eom-autonomous", "t0!=0" if t0 != 0 else "t0=0",
              f"systems={len(rhos)}", "linear-only" if mf["eom"]["linear_only"] else "general-eom",
              "field-independent-H" if all(s["g"] == 0 for s in mf["systems"]) else "field-dependent-H",
              "cutoff-active" if tempogen.cutoff_active(p) else "full-memory",
              "sampled-propagators" if case.get("sampled") else "integrated-propagators")
    d1 = oqupy.MeanFieldTempo(mfs, baths, par, rhos, a0, start_time=t0, unique=case["unique"]).compute(
        t_end, progress_type="silent")
    pts = [oqupy.pt_tempo_compute(b, t0, t_end, par, unique=case["unique"], progress_type="silent") for b in baths]
    d2 = oqupy.compute_dynamics_with_field(mfs, a0, pts, initial_state_list=rhos, start_time=t0, subdiv_limit=sl,
                                           progress_type="silent")
    times = t0 + dt * np.arange(N + 1)
    f1, f2 = np.array(d1.fields), np.array(d2.fields)
    amax = max(1.0, float(np.abs(f1).max()), float(np.abs(f2).max()))
    out.check_close("times/mft", np.array(d1.times), times, 1e-12 * (abs(t0) + N * dt + 1))
    out.check_close("times/cdwf", np.array(d2.times), times, 1e-12 * (abs(t0) + N * dt + 1))
    tol = tempogen.trunc_tol(p, 100.0, scale=amax)
    out.check_close("methods/field", f2, f1, tol, "compute_dynamics_with_field vs MeanFieldTempo: field")
    for i, (x, y) in enumerate(zip(d1.system_dynamics, d2.system_dynamics)):
        out.check_close("methods/states", np.array(y.states), np.array(x.states), tol, f"system {i}")
    # (ii) Heun validity predicate on each method's own output
    for tag, d in (("mft", d1), ("cdwf", d2)):
        res = mfgen.heun_residual(mf, np.array(d.times), [np.array(x.states) for x in d.system_dynamics],
                                  np.array(d.fields, dtype=complex).reshape(-1), dt)
        out.metric("heun/" + tag + "/tol", res / (1e-10 * amax))
        if not res <= 1e-10 * amax:
            out.fail("heun/" + tag, f"Heun residual {res:.3e}")
    # (iii) closed form
    if mf["eom"]["linear_only"]:
        c0, c1 = complex(*mf["eom"]["c0"]), complex(*mf["eom"]["c1"])
        exact = a0 + c0 * (times - t0) + c1 * (times ** 2 - t0 ** 2) / 2
        out.check_close("closed-form/mft", f1, exact, 1e-10 * amax, "a(t) for f=c0+c1 t")
        out.check_close("closed-form/cdwf", f2, exact, 1e-10 * amax, "a(t) for f=c0+c1 t")
    # (iv) field-independent members = plain TEMPO
    for i, s in enumerate(mf["systems"]):
        if s["g"] == 0:
            plain = oqupy.Tempo(mfgen.build_plain_system(s), baths[i], par, rhos[i], t0, unique=case["unique"]).compute(
                t_end, progress_type="silent")
            out.check_close("field-independent=tempo", np.array(d1.system_dynamics[i].states), np.array(plain.states),
                            tempogen.trunc_tol(p, 100.0), f"system {i}")
    # (v) record_all False
    d3 = oqupy.compute_dynamics_with_field(mfs, a0, pts, initial_state_list=rhos, start_time=t0, record_all=False,
                                           subdiv_limit=sl, progress_type="silent")
    out.check_close("record_all=False/field", np.array(d3.fields)[-1:], f2[-1:], 1e-12 * amax)
    for i, (x, y) in enumerate(zip(d3.system_dynamics, d2.system_dynamics)):
        out.check_close("record_all=False/state", np.array(x.states)[-1], np.array(y.states)[-1], 1e-12)
    out.check_close("record_all=False/time", np.array(d3.times)[-1:], times[-1:], 1e-12 * (abs(t0) + N * dt + 1))
    return out


def subs(tier):
    return [Sub("mean-field", run_case, strategy=s_case, budget={"quick": 240, "thorough": 2400})]
