"""C18 - control operations act at the stated time, side of measurement and order."""
import numpy as np
from hypothesis import strategies as st

from vlib import ancgen, chaingen, gens, sysgen
from vlib.refs import anc as A
from vlib.runner import Outcome, Sub

ID = "C18"
LEVEL = "exploration"
RULE = ("Hypothesis-generated control schedules: superoperators from {unitary kick, dephasing, amplitude damping, "
        "non-trace-preserving left/right/left-right multiplication, identity}, steps 0..N (first and last included), "
        "pre/post flag, int step or float time (offset <= 0.4 dt from the step, start_time != 0), 1..3 controls stacked "
        "on the same (step, side); single systems with no or one exact ancilla environment (compute_dynamics, record_all on/off, "
        "a Control object that was already used in a computation before its last operations were added, "
        "compute_dynamics_with_field with one system and with TWO systems carrying different schedules in either order, the "
        "dynamics reported by compute_gradient_and_dynamics) and "
        "chains of 2..3 sites (PtTebd + ChainControl; uncoupled, two-site coupled, with ancilla process tensors). "
        "Oracle: explicit evolution with the documented semantics (pre: before the record, post: after it, once, in "
        "insertion order), tolerance 1e-10 (chains: 1e-8). Non-trivial: >=2 stacked non-commuting controls, or a "
        "control at step 0 or N, or a float time; distinct = distinct canonical JSON of the case.")
TECHNIQUE = "Hypothesis property-based testing against a reference model of the control semantics (explicit joint evolution)"
LEVEL_TEXT = ("Generated control schedules on single systems and chains are compared at every step with an explicit "
              "evolution implementing the documented semantics; exploration at small sizes.")
LEVEL_NOTE = ("Int-step and float-time controls on the same step and side are generated only with mutually commuting maps (no "
              "documented relative order; each must still act exactly once); distinct float times rounding to the same step "
              "are not generated. Trusts vlib/refs/anc.py and vlib/refs/chain.py.")
ASSUMPTIONS = [
    "documented semantics: pre-measurement control acts before the recorded state of that step, post after it",
    "controls stacked on the same step act in insertion order",
]


@st.composite
def s_groups(draw, d, N, allow_float=True, sites=None):
    ng = draw(st.integers(1, 4))
    seen = set()
    groups = []
    for _ in range(ng):
        step = draw(st.sampled_from([0, N] + list(range(N + 1))))
        post = draw(st.booleans())
        site = draw(st.integers(0, (len(sites) if isinstance(sites, list) else sites) - 1)) if sites else 0
        if (step, post, site) in seen:
            continue
        seen.add((step, post, site))
        kind = draw(st.sampled_from(["int", "float", "mixed"])) if allow_float else "int"
        g = {"step": step, "post": post, "site": site, "kind": kind,
             "delta": draw(st.sampled_from([-0.4, -0.25, 0.0, 0.1, 0.4])) if kind != "int" else 0.0}
        if kind == "mixed":
            # int-step and float-time controls on the same step and side have no documented relative order: only
            # mutually commuting maps are generated (diagonal phase kicks, dephasing, identity); each acts exactly once
            dd = d if not sites else (sites[site] if isinstance(sites, list) else 2)
            nops = draw(st.integers(2, 3))
            g["ops"] = [draw(st.one_of(
                st.builds(lambda ph: {"kind": "unitary", "u": {"kind": "phases", "ph": ph}},
                          st.lists(st.integers(0, 7), min_size=dd, max_size=dd)),
                st.builds(lambda p_: {"kind": "dephase", "p": p_}, st.sampled_from([0.25, 0.5])),
                st.just({"kind": "identity"}))) for _ in range(nops)]
            g["op_kinds"] = [draw(st.sampled_from(["int", "float"])) for _ in range(nops)]
            if len(set(g["op_kinds"])) == 1:
                g["op_kinds"][0] = "float" if g["op_kinds"][0] == "int" else "int"
        else:
            g["ops"] = [draw(ancgen.control_op_spec(d if not sites else (sites[site] if isinstance(sites, list) else 2),
                                                    invertible=bool(sites)))
                        for _ in range(draw(st.integers(1, 3)))]
        groups.append(g)
    return groups


@st.composite
def s_single(draw, tier):
    d = draw(st.integers(2, 3))
    N = draw(st.integers(1, 6))
    env = draw(ancgen.env_spec(d, N, allow_transforms=False)) if draw(st.booleans()) else None
    return {"d": d, "N": N, "dt": draw(st.sampled_from([0.1, 0.25, 0.3, 0.7])),
            "t0": draw(st.sampled_from([0.0, 0.35, -1.3, 2.0])),
            "sys": draw(sysgen.sys_spec(d)), "rho0": draw(gens.dm_spec(d)), "env": env,
            "groups": draw(s_groups(d, N)),
            # mean-field route with a SECOND system that carries another control schedule (or none)
            "groups2": draw(st.one_of(st.none(), s_groups(d, N))), "second_first": draw(st.booleans()),
            # the Control object has been used in a computation when only its first `used_after` operations had been added
            "used_after": draw(st.one_of(st.none(), st.integers(0, 4)))}


def _build_control(groups, d, t0, dt):
    """(Control, reference dict step -> (pre, post) Liouville maps) for a list of control groups"""
    import oqupy
    ctl = oqupy.Control(d)
    ref = {}
    for g in groups:
        for j, o in enumerate(g["ops"]):
            S = ancgen.build_control_op(o, d)
            kind_j = g["op_kinds"][j] if g["kind"] == "mixed" else g["kind"]
            if kind_j == "int":
                ctl.add_single(int(g["step"]), S, post=g["post"])
            else:
                ctl.add_single(float(t0 + (g["step"] + g["delta"]) * dt), S, post=g["post"])
            pre, post = ref.get(g["step"], (None, None))
            if g["post"]:
                post = S if post is None else S @ post
            else:
                pre = S if pre is None else S @ pre
            ref[g["step"]] = (pre, post)
    return ctl, ref


def _noncommuting_stack(groups, d):
    for g in groups:
        ops = [ancgen.build_control_op(o, d) for o in g["ops"]]
        for i in range(len(ops)):
            for j in range(i + 1, len(ops)):
                if np.abs(ops[i] @ ops[j] - ops[j] @ ops[i]).max() > 1e-6:
                    return True
    return False


def run_single(case):
    import oqupy
    out = Outcome()
    d, N, dt, t0 = case["d"], case["N"], case["dt"], case["t0"]
    system = sysgen.build_system(case["sys"])
    rho0 = gens.build_dm(case["rho0"])
    envs = [ancgen.build_env(case["env"], d, N, dt=dt)] if case["env"] else []
    ctl = oqupy.Control(d)
    ref = {}
    n_added = 0
    used_after = case.get("used_after")
    for g in case["groups"]:
        for j, o in enumerate(g["ops"]):
            if used_after is not None and n_added == used_after:
                # an earlier computation with the controls added so far (result not needed)
                out.label("control-used-before-complete")
                if envs:
                    oqupy.compute_dynamics(system, rho0, process_tensor=envs[0]["pt"], start_time=t0, control=ctl,
                                           subdiv_limit=sysgen.subdiv_limit(case["sys"]), progress_type="silent")
                else:
                    oqupy.compute_dynamics(system, rho0, dt=dt, num_steps=N, start_time=t0, control=ctl,
                                           subdiv_limit=sysgen.subdiv_limit(case["sys"]), progress_type="silent")
            n_added += 1
            S = ancgen.build_control_op(o, d)
            kind_j = g["op_kinds"][j] if g["kind"] == "mixed" else g["kind"]
            if kind_j == "int":
                ctl.add_single(int(g["step"]), S, post=g["post"])
            else:
                ctl.add_single(float(t0 + (g["step"] + g["delta"]) * dt), S, post=g["post"])
            pre, post = ref.get(g["step"], (None, None))
            if g["post"]:
                post = S if post is None else S @ post
            else:
                pre = S if pre is None else S @ pre
            ref[g["step"]] = (pre, post)
    stacked = _noncommuting_stack(case["groups"], d)
    edge = any(g["step"] in (0, N) for g in case["groups"])
    flt = any(g["kind"] != "int" for g in case["groups"])
    if any(g["kind"] == "mixed" for g in case["groups"]):
        out.label("mixed-int-float-same-step")
    out.nontrivial = stacked or edge or flt
    out.label("stacked-noncommuting" if stacked else "no-stack", "edge-step" if edge else "inner-step",
              "float-time" if flt else "int-step", "env" if envs else "no-env")
    for g in case["groups"]:
        out.label("post" if g["post"] else "pre")
        for o in g["ops"]:
            out.label("op=" + o["kind"])
    kw = dict(start_time=t0, control=ctl, subdiv_limit=sysgen.subdiv_limit(case["sys"]), progress_type="silent")
    if envs:
        dyn = oqupy.compute_dynamics(system, rho0, process_tensor=envs[0]["pt"], **kw)
    else:
        dyn = oqupy.compute_dynamics(system, rho0, dt=dt, num_steps=N, **kw)
    want = A.ref_dynamics(d, envs, rho0, sysgen.ref_props(case["sys"], dt, t0), N, ref)
    tol = 1e-10 * max(1.0, float(np.abs(want).max()))
    if case["sys"]["kind"] == "td" and case["sys"].get("integ"):
        tol = max(tol, 1e-7 * max(1.0, float(np.abs(want).max())))
    out.check_close("single", np.array(dyn.states), want, tol, "compute_dynamics with controls")
    # the same schedule through the other entry points that take controls
    ra = oqupy.compute_dynamics(system, rho0, process_tensor=envs[0]["pt"], record_all=False, **kw) if envs else \
        oqupy.compute_dynamics(system, rho0, dt=dt, num_steps=N, record_all=False, **kw)
    out.check_close("single/record_all=False", np.array(ra.states)[-1], want[-1], tol, "final state with record_all=False")
    if case["sys"]["kind"] == "const" or not case["sys"].get("integ"):
        import oqupy.system as _S
        spec_s = case["sys"]
        if spec_s["kind"] == "const":
            Hc = gens.herm(spec_s["H0"])
            sysf = oqupy.TimeDependentSystemWithField(
                lambda t, a: Hc, gammas=[(lambda t, g=l["g0"]: g) for l in spec_s["lind"]],
                lindblad_operators=[(lambda t, A_=gens.to_c(l["A0"]): A_) for l in spec_s["lind"]])
            mfs = oqupy.MeanFieldSystem([sysf], lambda t, st_, a: 0.3 - 0.1 * a)
            pts = [envs[0]["pt"]] if envs else None
            kwf = dict(initial_state_list=[rho0], start_time=t0, control_list=[ctl], progress_type="silent")
            if envs:
                dw = oqupy.compute_dynamics_with_field(mfs, 0.2 + 0.0j, [pts[0]], **kwf)
            else:
                dw = oqupy.compute_dynamics_with_field(mfs, 0.2 + 0.0j, None, dt=dt, num_steps=N, **kwf)
            out.check_close("with-field", np.array(dw.system_dynamics[0].states), want, tol,
                            "compute_dynamics_with_field with controls (field-independent system)")
            if "groups2" in case:
                # two systems, each with its own control schedule (the second possibly without controls)
                g2 = case["groups2"]
                ctl2, ref2 = _build_control(g2, d, t0, dt) if g2 is not None else (None, {})
                want2 = A.ref_dynamics(d, envs, rho0, sysgen.ref_props(case["sys"], dt, t0), N, ref2)
                sysf2 = oqupy.TimeDependentSystemWithField(
                    lambda t, a: Hc, gammas=[(lambda t, g=l["g0"]: g) for l in spec_s["lind"]],
                    lindblad_operators=[(lambda t, A_=gens.to_c(l["A0"]): A_) for l in spec_s["lind"]])
                order = [1, 0] if case["second_first"] else [0, 1]
                syss, ctls, wants = [sysf, sysf2], [ctl, ctl2], [want, want2]
                mfs2 = oqupy.MeanFieldSystem([syss[i] for i in order], lambda t, st_, a: 0.3 - 0.1 * a)
                kw2 = dict(initial_state_list=[rho0, rho0], start_time=t0, control_list=[ctls[i] for i in order],
                           progress_type="silent")
                if envs:
                    dw2 = oqupy.compute_dynamics_with_field(mfs2, 0.2 + 0.0j, [pts[0], pts[0]], **kw2)
                else:
                    dw2 = oqupy.compute_dynamics_with_field(mfs2, 0.2 + 0.0j, None, dt=dt, num_steps=N, **kw2)
                out.label("two-systems:second-" + ("has-controls" if g2 is not None else "no-controls"))
                for pos, i in enumerate(order):
                    out.check_close("with-field/two-systems", np.array(dw2.system_dynamics[pos].states), wants[i], tol,
                                    f"system at position {pos} ({'first' if i == 0 else 'second'} schedule) of a two-system mean-field run")
            if envs and case["d"] == 2:
                from oqupy.gradient import compute_gradient_and_dynamics
                psys = oqupy.ParameterizedSystem(
                    lambda u: Hc, gammas=[(lambda u, g=l["g0"]: g) for l in spec_s["lind"]],
                    lindblad_operators=[(lambda u, A_=gens.to_c(l["A0"]): A_) for l in spec_s["lind"]])
                _, dg = compute_gradient_and_dynamics(system=psys, initial_state=rho0, target_derivative=rho0.T.copy(),
                                                      process_tensors=[envs[0]["pt"]], parameters=np.zeros((2 * N, 1)),
                                                      start_time=t0, control=ctl, progress_type="silent")
                out.check_close("gradient-dynamics", np.array(dg.states), want, tol,
                                "compute_gradient_and_dynamics: reported dynamics with controls")
    return out


@st.composite
def s_chain(draw, tier):
    N = draw(st.integers(1, 4))
    family = draw(st.sampled_from(["uncoupled", "two-site", "two-site"]))
    ch = draw(chaingen.chain_spec(family, n_min=2, n_max=3, dims=(2, 3), N=N))
    return {"N": N, "dt": draw(st.sampled_from([0.1, 0.3])), "order": draw(st.sampled_from([1, 2])),
            "chain": ch, "groups": draw(s_groups(2, N, allow_float=False, sites=list(ch["dims"]))),
            "split": draw(st.one_of(st.none(), st.integers(0, N)))}


def run_chain(case):
    import oqupy
    out = Outcome()
    N, dt, spec = case["N"], case["dt"], case["chain"]
    ds = spec["dims"]
    n = len(ds)
    chain = chaingen.build_chain(spec)
    envs = chaingen.build_envs(spec, N, dt)
    cc = oqupy.ChainControl(ds)
    ref = {}
    for g in case["groups"]:
        for o in g["ops"]:
            S = ancgen.build_control_op(o, ds[g["site"]])
            cc.add_single_site_control(S, int(g["site"]), int(g["step"]), post=g["post"])
            key = (g["step"], g["post"])
            lst = ref.setdefault(key, [None] * n)
            lst[g["site"]] = S if lst[g["site"]] is None else S @ lst[g["site"]]
    stacked = any(_noncommuting_stack([g], ds[g["site"]]) for g in case["groups"])
    edge = any(g["step"] in (0, N) for g in case["groups"])
    out.nontrivial = stacked or edge
    out.label("family=" + spec["family"], f"sites={n}", "dims=" + "x".join(str(x) for x in ds), "stacked-noncommuting" if stacked else "no-stack",
              "edge-step" if edge else "inner-step", "pt-on-site" if any(e is not None for e in envs) else "no-pt")
    record = list(range(n)) + [tuple(range(n))]
    teb = oqupy.PtTebd(oqupy.AugmentedMPS(chaingen.initial_states(spec)), chain,
                       [None if e is None else e["pt"] for e in envs],
                       oqupy.PtTebdParameters(dt=dt, epsrel=1e-12, order=case["order"]),
                       chain_control=cc, dynamics_sites=record)
    if case.get("split") is not None:
        out.label("split-compute")
        teb.compute(case["split"], progress_type="silent")
    res = teb.compute(N, progress_type="silent")
    want = chaingen.dense_reference(spec, envs, N, dt, record, ref)
    for s in record:
        got = np.array(res["dynamics"][s].states)
        tol = 1e-8 * max(1.0, float(np.abs(want[s]).max()))
        out.check_close("chain", got, want[s], tol, f"sites {s}")
    return out


def subs(tier):
    return [
        Sub("single", run_single, strategy=s_single, budget={"quick": 1500, "thorough": 15000}),
        Sub("chain", run_chain, strategy=s_chain, budget={"quick": 160, "thorough": 1500}),
    ]
