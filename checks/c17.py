"""C17 - an interrupted process-tensor file is never mistaken for a complete one."""
import hashlib
import os
import shutil
import subprocess
import sys
import tempfile
import warnings

import numpy as np
from hypothesis import strategies as st

from vlib.runner import REPO_DIR, VERIF_DIR, HarnessError, Outcome, Sub

ID = "C17"
LEVEL = "fault_enumeration"
RULE = ("(crash, exhaustive) for two writers - SimpleProcessTensor.export and a file-backed PT-TEMPO run, N=3 (quick) / 3, 4, 6 "
        "and an 8-step export with 64x64x4x4 tensors (1 MB each, so HDF5 flushes by itself; thorough) steps - a child process is made to die after EVERY file operation (after each tensor write incl. the "
        "initial-tensor write at creation, each MPO tensor, each cap, and at entry of close) in each of four crash modes "
        "(SIGKILL, os._exit, unhandled exception followed by normal interpreter shutdown, SIGKILL after an HDF5 flush); in "
        "the two modes that leave flushed data the writer additionally assigns name and description of the open file object "
        "after an early, a middle or the last write before dying at or after that point, or stamps the file with another "
        "library version; the "
        "file is then opened with import_process_tensor as 'file' and 'simple'. Oracle: the reader raises or warns 'may be "
        "corrupt' - it never returns an object silently; an uninterrupted writer leaves a file that opens without that "
        "warning and with complete content. (modes) Hypothesis-generated sequences of create(write|overwrite)/read/remove "
        "operations on a directory against a model: 'write' on an existing file raises and leaves it byte-identical, "
        "'overwrite' replaces, 'read' of a missing file raises, remove() is refused for read-mode objects and for "
        "write-mode objects with an explicit name, allowed for temp-file and overwrite objects. Non-trivial (crash): crash "
        "point after >=1 tensor write and before close completes; (modes): sequence touches an existing file.")
TECHNIQUE = "fault injection with exhaustive enumeration of crash points x crash modes in a child writer process + Hypothesis model-based op sequences for file modes"
LEVEL_TEXT = ("Every crash point of both writers is enumerated in four crash modes and the reader's reaction classified; the "
              "mode/remove semantics are checked on generated operation sequences against an in-memory model of the directory.")
LEVEL_NOTE = ("Crash points are at file-operation granularity; a torn write inside one HDF5 call is represented by SIGKILL "
              "(unflushed) and flush-then-kill only. Trusts h5py to refuse unflushed files.")
ASSUMPTIONS = ["the writer is killed between library-level file operations, not inside an HDF5 call"]

MODES = ["kill", "_exit", "exc", "flushkill"]
WRITER = os.path.join(VERIF_DIR, "vlib", "crash_writer.py")


def _run_writer(fn, writer, mode, k, N, rename_at=0, other_version=None):
    env = dict(os.environ, PYTHONHASHSEED="0")
    return subprocess.run([sys.executable, WRITER, REPO_DIR, fn, writer, mode, str(k), str(N), str(rename_at), other_version or "-"],
                          capture_output=True, text=True, env=env, timeout=300)


_OPS = {}


def ops_count(writer, N):
    key = (writer, N)
    if key not in _OPS:
        tmp = tempfile.mkdtemp(prefix="verif_c17_")
        try:
            r = _run_writer(os.path.join(tmp, "c.hdf5"), writer, "count", 0, N)
            if r.returncode != 0 or "ops" not in r.stdout:
                raise HarnessError(f"writer dry run failed: {r.stdout} {r.stderr[-800:]}")
            _OPS[key] = int(r.stdout.split("ops")[-1].split()[0])
        finally:
            shutil.rmtree(tmp, ignore_errors=True)
    return _OPS[key]


def crash_cases(tier):
    cases = []
    Ns = [3] if tier == "quick" else [3, 4, 6, 108]
    for writer in ("export", "pttempo"):
        for N in Ns:
            if N >= 100 and writer != "export":
                continue
            n = ops_count(writer, N)
            for mode in MODES:
                for k in list(range(1, n + 1)) + [-1]:
                    cases.append({"writer": writer, "N": N, "mode": mode, "k": k, "ops": n})
            cases.append({"writer": writer, "N": N, "mode": "none", "k": 0, "ops": n})
            # a metadata update (name, description) on the file while it is being written, then a death that leaves
            # flushed data behind; and the uninterrupted run with such an update
            if N < 100:
                for mode in ("exc", "flushkill"):
                    for r_at in sorted({1, max(1, n // 2), n}):
                        for k in sorted({r_at, min(n, r_at + 1), n}) + [-1]:
                            cases.append({"writer": writer, "N": N, "mode": mode, "k": k, "ops": n, "rename_at": r_at})
                cases.append({"writer": writer, "N": N, "mode": "none", "k": 0, "ops": n, "rename_at": max(1, n // 2)})
                # the file was written by another release of the library (other version stamp), interrupted or not
                for mode in ("exc", "flushkill"):
                    for k in sorted({1, max(1, n // 2), n}) + [-1]:
                        cases.append({"writer": writer, "N": N, "mode": mode, "k": k, "ops": n, "other_version": "0.0.1"})
                cases.append({"writer": writer, "N": N, "mode": "none", "k": 0, "ops": n, "other_version": "0.0.1"})
    return cases


def _read(fn, typ):
    import oqupy
    with warnings.catch_warnings(record=True) as w:
        warnings.simplefilter("always")
        try:
            p = oqupy.import_process_tensor(fn, typ)
        except Exception as exc:
            return "raises", type(exc).__name__, None
        corrupt = any("corrupt" in str(x.message) for x in w)
        info = None
        try:
            n = len(p)
            ncap = sum(1 for i in range(n + 2) if p.get_cap_tensor(i) is not None)
            info = (n, ncap)
        except Exception as exc:
            info = ("error", type(exc).__name__)
        finally:
            try:
                if hasattr(p, "close"):
                    p.close()
            except Exception:
                pass
        return ("warns" if corrupt else "silent"), None, info


def run_crash(case):
    out = Outcome()
    tmp = tempfile.mkdtemp(prefix="verif_c17_")
    try:
        fn = os.path.join(tmp, "pt.hdf5")
        r = _run_writer(fn, case["writer"], case["mode"], case["k"], case["N"], case.get("rename_at", 0), case.get("other_version"))
        if case.get("other_version"):
            out.label("written-by-another-release")
        mode, k = case["mode"], case["k"]
        out.label("writer=" + case["writer"], "mode=" + mode)
        if case.get("rename_at"):
            out.label("name-assigned-while-writing")
        if mode == "none":
            if r.returncode != 0:
                raise HarnessError(f"uninterrupted writer failed: {r.stderr[-500:]}")
            out.nontrivial = True
            for typ in ("file", "simple"):
                status, exc, info = _read(fn, typ)
                if status != "silent":
                    out.fail("complete-file-" + status, f"import type {typ}: {exc}")
                elif info != (case["N"] % 100, case["N"] % 100 + 1):
                    out.fail("complete-file-content", f"import type {typ}: (len, caps) = {info}")
            return out
        if r.returncode == 0:
            raise HarnessError(f"writer survived crash point {case}: {r.stdout}")
        out.nontrivial = True
        point = "before-close" if k == -1 else ("after-creation" if k == 1 else "mid-write")
        out.label("point=" + point)
        if not os.path.exists(fn):
            out.label("no-file-left")
            return out
        for typ in ("file", "simple"):
            status, exc, info = _read(fn, typ)
            out.label("reader-" + status)
            if status == "silent":
                out.fail(f"silently-opened:{mode}" + (":after-name-assignment" if case.get("rename_at") else "")
                         + (":other-release" if case.get("other_version") else ""),
                         f"writer={case['writer']} crash after op {k} of {case['ops']} ({mode}"
                         + (f", name/description assigned after op {case['rename_at']}" if case.get("rename_at") else "") + "): "
                         f"import '{typ}' returned an object without warning, (len, caps present) = {info}")
        return out
    finally:
        shutil.rmtree(tmp, ignore_errors=True)


# ---------------------------------------------------------------- file modes

NAMES = ["a.hdf5", "b.hdf5"]


@st.composite
def s_modes(draw, tier):
    n = draw(st.integers(2, 8))
    ops = []
    for _ in range(n):
        kind = draw(st.sampled_from(["write", "overwrite", "read", "remove-read", "remove-write", "remove-overwrite",
                                     "remove-temp", "export", "export-overwrite", "foreign-file", "foreign-file"]))
        ops.append({"op": kind, "name": draw(st.sampled_from(NAMES)), "marker": draw(st.integers(1, 99))})
    return {"ops": ops}


def _sha(fn):
    with open(fn, "rb") as f:
        return hashlib.sha1(f.read()).hexdigest()


def run_modes(case):
    import oqupy.process_tensor as P
    out = Outcome()
    tmp = tempfile.mkdtemp(prefix="verif_c17m_")
    model = {}
    touched_existing = False
    try:
        for i, op in enumerate(case["ops"]):
            fn = os.path.join(tmp, op["name"])
            kind, marker = op["op"], op["marker"]
            exists = op["name"] in model
            tag = kind
            ten = np.full((1, 1, 4, 4), float(marker), dtype=complex)

            def create(mode):
                pt = P.FileProcessTensor(mode=mode, filename=fn, hilbert_space_dimension=2, dt=0.1)
                pt.set_mpo_tensor(0, ten)
                return pt
            if kind == "foreign-file":
                # a file that is not a (valid) process tensor file: empty or garbage bytes
                if exists:
                    continue
                with open(fn, "wb") as f:
                    f.write(b"" if marker % 2 else b"not an hdf5 file " * marker)
                model[op["name"]] = ("foreign", _sha(fn))
                continue
            foreign = exists and isinstance(model[op["name"]], tuple)
            if kind in ("write", "overwrite"):
                before = _sha(fn) if exists else None
                try:
                    pt = create(kind)
                    pt.close()
                    ok = True
                except (OSError, FileExistsError):
                    ok = False
                if kind == "write" and exists:
                    touched_existing = True
                    if ok:
                        out.fail("write-overwrote-existing", f"step {i}: mode 'write' succeeded on an existing file")
                        model[op["name"]] = marker
                    elif _sha(fn) != before:
                        out.fail("refused-write-modified-file", f"step {i}")
                else:
                    if not ok:
                        out.fail(tag + "-refused", f"step {i}: could not create file (exists={exists})")
                    else:
                        touched_existing |= exists
                        model[op["name"]] = marker
            elif kind in ("export", "export-overwrite"):
                spt = P.SimpleProcessTensor(2, dt=0.1)
                spt.set_mpo_tensor(0, ten)
                spt.compute_caps()
                before = _sha(fn) if exists else None
                try:
                    spt.export(fn, overwrite=(kind == "export-overwrite"))
                    ok = True
                except (OSError, FileExistsError):
                    ok = False
                if kind == "export" and exists:
                    touched_existing = True
                    if ok:
                        out.fail("export-overwrote-existing", f"step {i}")
                        model[op["name"]] = marker
                    elif _sha(fn) != before:
                        out.fail("refused-export-modified-file", f"step {i}")
                elif not ok:
                    out.fail(tag + "-refused", f"step {i} (exists={exists})")
                else:
                    touched_existing |= exists
                    model[op["name"]] = marker
            elif kind in ("read", "remove-read") and foreign:
                touched_existing = True
                try:
                    pt = P.FileProcessTensor(mode="read", filename=fn)
                    out.fail("foreign-file-opened", f"step {i}: a file that is no process tensor file opened in read mode")
                    pt.close()
                except Exception:
                    pass
                if not os.path.exists(fn) or _sha(fn) != model[op["name"]][1]:
                    out.fail("foreign-file-modified-by-read", f"step {i}")
            elif kind == "read":
                try:
                    pt = P.FileProcessTensor(mode="read", filename=fn)
                    val = pt.get_mpo_tensor(0, transformed=False)[0, 0, 0, 0].real
                    pt.close()
                    if not exists:
                        out.fail("read-missing-succeeded", f"step {i}")
                    elif val != model[op["name"]]:
                        out.fail("read-wrong-content", f"step {i}: marker {val} expected {model[op['name']]}")
                    touched_existing = True
                except (OSError, FileNotFoundError):
                    if exists:
                        out.fail("read-existing-failed", f"step {i}")
            elif kind == "remove-read":
                if not exists:
                    continue
                touched_existing = True
                pt = P.FileProcessTensor(mode="read", filename=fn)
                try:
                    pt.remove()
                    out.fail("remove-allowed-for-read-object", f"step {i}")
                    model.pop(op["name"], None)
                except FileExistsError:
                    if not os.path.exists(fn):
                        out.fail("refused-remove-deleted-file", f"step {i}")
            elif kind == "remove-write":
                if exists:
                    continue
                pt = create("write")
                try:
                    pt.remove()
                    out.fail("remove-allowed-for-named-write-object", f"step {i}")
                except FileExistsError:
                    if not os.path.exists(fn):
                        out.fail("refused-remove-deleted-file", f"step {i}")
                    else:
                        model[op["name"]] = marker
            elif kind == "remove-overwrite":
                touched_existing |= exists
                pt = create("overwrite")
                try:
                    pt.remove()
                except FileExistsError:
                    out.fail("remove-refused-for-overwrite-object", f"step {i}")
                if os.path.exists(fn):
                    out.fail("remove-left-file", f"step {i}")
                    model[op["name"]] = marker
                else:
                    model.pop(op["name"], None)
            elif kind == "remove-temp":
                pt = P.FileProcessTensor(mode="write", filename=None, hilbert_space_dimension=2)
                tfn = pt.filename
                pt.set_mpo_tensor(0, ten)
                try:
                    pt.remove()
                except FileExistsError:
                    out.fail("remove-refused-for-temp-object", f"step {i}")
                if os.path.exists(tfn):
                    out.fail("remove-left-temp-file", f"step {i}")
                    os.remove(tfn)
            # the directory must agree with the model after every step
            present = sorted(f for f in os.listdir(tmp))
            if present != sorted(model):
                out.fail("directory-differs-from-model", f"step {i} ({kind}): files {present} vs model {sorted(model)}")
                break
        out.nontrivial = touched_existing
        for op in case["ops"]:
            out.label("op=" + op["op"])
        return out
    finally:
        shutil.rmtree(tmp, ignore_errors=True)


def subs(tier):
    return [
        Sub("crash", run_crash, cases=crash_cases, exhaustive=True, budget={"quick": 1, "thorough": 1}),
        Sub("modes", run_modes, strategy=s_modes, budget={"quick": 400, "thorough": 4000}),
    ]
