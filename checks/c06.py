"""C06 - degeneracy reduction (unique=True) never changes results."""
import numpy as np
from hypothesis import strategies as st

from vlib import gens, mfgen, sysgen, tempogen
from vlib.runner import Outcome, Sub

ID = "C06"
LEVEL = "exploration"
RULE = ("Hypothesis-generated coupling operators with eigenvalue multisets forcing arbitrary coincidences of o_i-o_j and "
        "o_i+o_j (pools of small integers/half-integers, symmetric and asymmetric, none, and total degeneracy O~1), d=2..5, "
        "diagonal or rotated, any system/state, all memory settings incl. active cut-off and add_correlation_time; TEMPO, "
        "PT-TEMPO+compute_dynamics and mean-field TEMPO are each run with unique=False and unique=True and compared at "
        "every step within the truncation tolerance. Non-trivial: the north or west degeneracy map merges indices "
        "(classes < d^2) and the pattern is asymmetric (o != -o up to permutation) or the cut-off is active; distinct = "
        "distinct canonical JSON.")
TECHNIQUE = "Hypothesis property-based differential testing (unique=True vs unique=False) over generated degeneracy patterns"
LEVEL_TEXT = ("Generated degeneracy patterns; each method run twice and compared at every step (c_T (N+1) eps + 1e-7, c_T=100 "
              "TEMPO/mean-field, 1000 PT-TEMPO). Exploration at d<=5 on conditioned inputs.")
LEVEL_NOTE = "Differential oracle; the unique=False route is anchored to independent references by C01/C03."
ASSUMPTIONS = ["TEMPO inputs are conditioned (D <= 3.5) and size-coupled as in DESIGN section 4"]

POOLS = [[-1.0, 0.0, 1.0], [-1.0, -0.5, 0.0, 0.5, 1.0], [0.0, 1.0, 2.0, 3.0], [0.5, 1.0, 1.5, 2.0], [0.0, 1.0], [-2.0, 1.0, 0.5]]


@st.composite
def s_case(draw, tier):
    d = draw(st.integers(2, 4 if tier == "quick" else 5))
    kind = draw(st.sampled_from(["pool"] * 5 + ["generic"] * 2 + ["total"]))
    if kind == "pool":
        pool = draw(st.sampled_from(POOLS))
        o = [draw(st.sampled_from(pool)) for _ in range(d)]
    elif kind == "generic":
        o = [draw(gens.grid(-2, 2, 8)) for _ in range(d)]
    else:
        o = [draw(st.sampled_from([0.0, 1.0, -0.5]))] * d
    # nearly degenerate spectra: eigenvalues that differ by 1e-3 ... 1e-13 (the library treats differences below 1e-12
    # as equal; anything above must be kept apart)
    near = draw(st.sampled_from([None, None, 2e-3, 1e-3, 1e-6, 1e-9, 1e-13]))
    if near is not None and kind != "total":
        o = list(o)
        i = draw(st.integers(0, d - 1))
        o[i] = o[i] + near
        if d >= 3 and draw(st.booleans()):
            o[(i + 1) % d] = o[(i + 1) % d] - 2 * near
    b = draw(tempogen.bath_spec(d, custom_weight=0.0, distinct_if_rotated=False))
    b = dict(b, o=o, near=near)
    p = draw(tempogen.params_spec(d, tier, n_min=2, eps=[1e-7, 1e-8, 1e-9]))
    return {"d": d, "bath": b, "total": kind == "total", "sys": draw(sysgen.sys_spec(d)),
            "rho0": draw(gens.dm_spec(d)), "par": p, "t0": draw(st.sampled_from([0.0, 0.4])),
            "mf": draw(st.integers(0, 3)) == 0, "a0": draw(gens.cnum(1, 4)),
            "B": draw(gens.cmatrix(d, d, 1, 2)),
            "o2": [draw(st.sampled_from(draw(st.sampled_from(POOLS)))) for _ in range(d)],
            "mf_second": draw(st.sampled_from(["none", "same", "other", "other-first"]))}


def run_case(case):
    import oqupy
    out = Outcome()
    d, b, p, t0 = case["d"], case["bath"], case["par"], case["t0"]
    o = np.array(b["o"], dtype=float)
    if b.get("near"):
        out.label("nearly-degenerate:%g" % b["near"])
    total = (o.max() - o.min()) == 0
    if total:
        # O proportional to the identity (or zero): no conditioning needed, D = 0
        V = gens.build_unitary(b["V"], d)
        O = np.diag(o).astype(complex)
        sd = b["sd"]
        bath = oqupy.Bath(O, gens.build_corr(gens.scaled_spec(sd, min(1.0, 0.5 / max(sd.get("alpha", 0.5), 1e-9)))))
    else:
        bath, sd, D, O, V = tempogen.build_bath(b, p, d)
    nclass_n = len(set(bath.north_degeneracy_map.tolist()))
    nclass_w = len(set(bath.west_degeneracy_map.tolist()))
    merges = nclass_n < d * d or nclass_w < d * d
    asym = sorted(np.round(o, 9).tolist()) != sorted(np.round(-o, 9).tolist())
    out.nontrivial = bool(merges and (asym or tempogen.cutoff_active(p)))
    out.label(f"d={d}", f"north-classes={nclass_n}", "merges" if merges else "no-merge",
              "asymmetric" if asym else "symmetric", "rotated" if b["V"]["kind"] != "identity" and not total else "diagonal",
              "total-degeneracy" if total else "partial", "cutoff-active" if tempogen.cutoff_active(p) else "full-memory",
              "tau=" + str(p["tau"]))
    system = sysgen.build_system(case["sys"])
    rho0 = gens.build_dm(case["rho0"])
    sl = sysgen.subdiv_limit(case["sys"])
    par = tempogen.build_params(p, subdiv_limit=sl)
    t_end = tempogen.end_time(p, t0)
    res = {}
    for u in (False, True):
        dyn = oqupy.Tempo(system, bath, par, rho0, t0, unique=u).compute(t_end, progress_type="silent")
        pt = oqupy.pt_tempo_compute(bath, t0, t_end, par, unique=u, progress_type="silent")
        dyn2 = oqupy.compute_dynamics(system, rho0, process_tensor=pt, start_time=t0, subdiv_limit=sl,
                                      progress_type="silent")
        res[u] = (np.array(dyn.states), np.array(dyn2.states))
    out.check_close("tempo", res[True][0], res[False][0], tempogen.trunc_tol(p, 100.0), "TEMPO unique on/off")
    out.check_close("pt-tempo", res[True][1], res[False][1], tempogen.trunc_tol(p, 1000.0), "PT-TEMPO unique on/off")
    if case["mf"]:
        second = case.get("mf_second", "none")
        out.label("mean-field", "mf-second=" + second)
        B = gens.to_c(case["B"])
        H0 = gens.herm(case["sys"]["H0"])
        mk = lambda: oqupy.TimeDependentSystemWithField(lambda t, a: H0 + 0.3 * (a * B + np.conj(a) * B.conj().T))
        blist, rlist = [bath], [rho0]
        if second != "none":
            o2 = np.array(case["o2"], dtype=float)
            if second == "same" or o2.max() == o2.min():
                b2 = bath
            else:
                bs2 = dict(b, o=list(o2), V={"kind": "identity"})
                b2 = tempogen.build_bath(bs2, p, d)[0]
            if second == "other-first":
                blist, rlist = [b2, bath], [rho0.T.copy(), rho0]
            else:
                blist, rlist = [bath, b2], [rho0, rho0.T.copy()]
        ns = len(blist)
        mfs = oqupy.MeanFieldSystem([mk() for _ in range(ns)],
                                    lambda t, st_, a: (-0.1 + 0.5j) * a + 0.3 * t + sum(0.5 / ns * np.trace(x @ B) for x in st_))
        a0 = complex(*case["a0"])
        r = {}
        for u in (False, True):
            dm = oqupy.MeanFieldTempo(mfs, blist, par, rlist, a0, start_time=t0, unique=u).compute(
                t_end, progress_type="silent")
            r[u] = (np.concatenate([np.array(x.states) for x in dm.system_dynamics]), np.array(dm.fields))
        amax = max(1.0, float(np.abs(r[False][1]).max()))
        out.check_close("mean-field/states", r[True][0], r[False][0], tempogen.trunc_tol(p, 100.0, scale=amax))
        out.check_close("mean-field/field", r[True][1], r[False][1], tempogen.trunc_tol(p, 100.0, scale=amax))
    return out


def subs(tier):
    return [Sub("unique", run_case, strategy=s_case, budget={"quick": 320, "thorough": 3000})]
