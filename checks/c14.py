"""C14 - splitting or repeating compute calls never changes the result."""
import itertools

import numpy as np
from hypothesis import strategies as st

from vlib import ancgen, chaingen, gens, mfgen, sysgen, tempogen
from vlib.runner import HarnessError, Outcome, Sub

ID = "C14"
LEVEL = "exploration"
RULE = ("Call histories as generated operation lists (model-based testing; the whole list shrinks as one value) plus the "
        "COMPLETE enumeration of all compute-target sequences of length <= 3 over targets 0..5 (258 histories) for Tempo "
        "(quick) and for MeanFieldTempo and PtTebd (thorough). Objects: Tempo (dkmax=2 so continuation crosses the memory "
        "boundary, or full memory; time-dependent system), MeanFieldTempo, PtTebd (targets in steps; 0-3 generated single-site chain controls on any step/site/side; restart from "
        "get_augmented_mps()+start_step at any step 0..4, also with controls on the restart step), PtTempo (compute / get_process_tensor in any order and multiplicity), GibbsTempo "
        "(compute / get_state / get_dynamics). Targets are spelled as end times half-way into the next step, exactly on the grid "
        "point (start + k dt, or its decimal literal) or 1e-12 before it. Operations: compute(target) in any order (increasing, repeated, decreasing), "
        "getters, and 'arm a transient fault' (the wrapped user callable - Hamiltonian, rate, Lindblad operator, field "
        "equation - raises at its k-th evaluation, once). Invariant after every operation: the dynamics are a prefix of the "
        "single-call reference (times exact, states within the truncation tolerance 6.1e-6 - separate runs are not bit-reproducible) reaching at least the furthest successful target; calls at or below "
        "it change nothing; after a faulted call every later compute either raises or leaves dynamics equal to the reference. "
        "Non-trivial: the history contains a repeat or a decrease, or a fault before the last call.")
TECHNIQUE = "model-based testing of call histories: Hypothesis-generated operation sequences with transient fault injection + exhaustive enumeration of short target sequences, against a single-call reference model"
LEVEL_TEXT = ("Histories of compute/get calls with injected transient failures of user callables are interpreted against the real "
              "objects and a reference (one uninterrupted call); an invariant is checked after every operation. All target "
              "sequences up to length 3 are enumerated.")
LEVEL_NOTE = "Faults are raised by wrapped user callables only; a retry may raise again (allowed) but may not return different or gapped dynamics."
ASSUMPTIONS = ["the single uninterrupted call defines the reference dynamics"]

NMAX = 5
# the reference is a separate run: truncating back-ends are reproducible to the truncation tolerance only
# (100 (N+1) epsrel + 1e-7 with epsrel 1e-8), not bit-wise
STATE_TOL = 100.0 * (NMAX + 1) * 1e-8 + 1e-7


SPELLINGS = ["half-way", "half-way", "on-grid", "on-grid-literal", "just-before"]


def make_end_of(t0, spelling):
    """end time that asks for k whole steps of dt = 0.1: half-way into step k+1 (unambiguous), start + k dt (a grid point up
    to floating-point rounding: included by the documented rule), the decimal literal of that grid point, or a grid point
    missed by 1e-12 (still included: the library's step count tolerates 1e-9 of a step... judged only via the reference)"""
    if spelling == "on-grid":
        return lambda k: t0 + k * 0.1
    if spelling == "on-grid-literal":
        return lambda k: round(t0 + k * 0.1, 10)
    if spelling == "just-before":
        return lambda k: t0 + k * 0.1 - 1e-12
    return lambda k: t0 + (k + 0.5) * 0.1


class InjectedFault(Exception):
    pass


class Injector:
    """wraps user callables; raises InjectedFault at the k-th evaluation of the armed kind, once"""

    def __init__(self):
        self.countdown = {}
        self.evals = {}

    def wrap(self, fn, kind):
        def wrapped(*a, **k):
            self.evals[kind] = self.evals.get(kind, 0) + 1
            c = self.countdown.get(kind)
            if c is not None:
                c -= 1
                if c <= 0:
                    del self.countdown[kind]
                    raise InjectedFault(kind)
                self.countdown[kind] = c
            return fn(*a, **k)
        return wrapped

    def arm(self, kind, k):
        self.countdown[kind] = k

    def disarm(self):
        self.countdown = {}


# ---------------------------------------------------------------- op lists

@st.composite
def s_ops(draw, kinds, max_len=8, targets=NMAX):
    n = draw(st.integers(2, max_len))
    ops = []
    for _ in range(n):
        r = draw(st.integers(0, 9))
        if r <= 5:
            ops.append({"op": "compute", "target": draw(st.integers(0, targets))})
        elif r <= 6:
            ops.append({"op": "get", "which": draw(st.integers(0, 3))})
        elif kinds:
            ops.append({"op": "arm", "kind": draw(st.sampled_from(kinds)), "k": draw(st.integers(1, 14))})
        else:
            ops.append({"op": "get", "which": draw(st.integers(0, 3))})
    ops.append({"op": "compute", "target": draw(st.integers(0, targets))})
    return ops


def _history_labels(out, ops):
    targets = [o["target"] for o in ops if o["op"] == "compute"]
    rep = any(b <= a for a, b in zip(targets[:-1], targets[1:]))
    armed = [i for i, o in enumerate(ops) if o["op"] == "arm"]
    last_compute = max(i for i, o in enumerate(ops) if o["op"] == "compute")
    fault = any(i < last_compute for i in armed)
    out.nontrivial = rep or fault
    out.label("repeat-or-decrease" if rep else "increasing", "fault-armed" if fault else "no-fault", f"len={min(len(ops), 9)}")


def _check_prefix(out, tag, times, states, ref_times, ref_states, need):
    n = len(times)
    if n < need:
        out.fail(tag + "/too-short", f"{n} time points, needs >= {need}")
        return False
    if n > len(ref_times):
        out.fail(tag + "/too-long", f"{n} time points, reference has {len(ref_times)}")
        return False
    ok = out.check_close(tag + "/times", np.asarray(times, dtype=float), ref_times[:n], 1e-12 * (1 + abs(ref_times[-1])),
                         "time axis vs single-call reference")
    if ok:
        ok = out.check_close(tag + "/states", np.asarray(states), ref_states[:n], STATE_TOL, "states vs single-call reference")
    return ok


def interpret(out, tag, ops, make, getter, ref_times, ref_states, injector, end_of):
    """generic interpreter for Tempo-like objects (compute(end) continues; getter(obj) -> (times, states) or None)"""
    obj = make()
    reached = -1          # furthest successful target
    dead = False
    faulted = False
    for i, op in enumerate(ops):
        if op["op"] == "arm":
            injector.arm(op["kind"], op["k"])
            continue
        if op["op"] == "get":
            cur = getter(obj)
            if cur is not None:
                _check_prefix(out, tag + "/get", cur[0], cur[1], ref_times, ref_states, reached + 1)
            continue
        k = op["target"]
        before = getter(obj)
        try:
            obj.compute(end_of(k), progress_type="silent")
        except InjectedFault:
            faulted = True
            out.label("fault-fired")
            cur = getter(obj)
            if cur is not None:
                _check_prefix(out, tag + "/after-fault", cur[0], cur[1], ref_times, ref_states, max(reached + 1, 0))
            continue
        except Exception as exc:
            if faulted:
                out.label("retry-raises")      # allowed: fails again
                dead = True
                continue
            raise
        if dead:
            out.label("recovered-after-raise")
        if faulted:
            out.label("compute-succeeded-after-fault")
        reached = max(reached, k)
        cur = getter(obj)
        if cur is None:
            out.fail(tag + "/no-dynamics", f"op {i}")
            return
        sig = tag + ("/after-retry" if faulted else "")
        if not _check_prefix(out, sig, cur[0], cur[1], ref_times, ref_states, reached + 1):
            return
        if len(cur[0]) != reached + 1 and not faulted:
            out.fail(tag + "/length", f"op {i}: {len(cur[0])} time points after targets up to {reached}")
            return
        if before is not None and k + 1 <= len(before[0]) and not faulted:
            if len(cur[0]) != len(before[0]) or not np.array_equal(np.asarray(cur[1]), np.asarray(before[1])):
                out.fail(tag + "/noop-changed-state", f"op {i}: compute({k}) below the reached target changed the dynamics")
                return
    injector.disarm()


# ---------------------------------------------------------------- Tempo

@st.composite
def s_tempo(draw, tier):
    return {"sys": draw(sysgen.sys_spec(2, force_td=True)), "rho0": draw(gens.dm_spec(2)),
            "dkmax": draw(st.sampled_from([2, 2, None, 1])), "t0": draw(st.sampled_from([0.0, 0.4])),
            "ops": draw(s_ops(["hamiltonian", "gamma", "lindblad"])), "spelling": draw(st.sampled_from(SPELLINGS))}


def _tempo_objects(case, injector):
    import oqupy
    bath = oqupy.Bath(np.diag([0.5, -0.5]), oqupy.PowerLawSD(0.2, 1.0, 3.0, temperature=0.4))
    sl = sysgen.subdiv_limit(case["sys"])
    par = oqupy.TempoParameters(dt=0.1, epsrel=1e-8, dkmax=case["dkmax"], subdiv_limit=sl)
    rho0 = gens.build_dm(case["rho0"])
    t0 = case["t0"]
    make = lambda inj=injector: oqupy.Tempo(sysgen.build_system(case["sys"], wrap=inj.wrap if inj else None),
                                            bath, par, rho0, t0)
    return make, t0


def run_tempo(case):
    out = Outcome()
    inj = Injector()
    make, t0 = _tempo_objects(case, inj)
    make_ref, _ = _tempo_objects(case, None)
    end_of = make_end_of(t0, case.get("spelling", "half-way"))
    ref = make_ref().compute(t0 + (NMAX + 0.5) * 0.1, progress_type="silent")
    rt, rs = np.array(ref.times), np.array(ref.states)
    _history_labels(out, case["ops"])
    out.label("dkmax=" + str(case["dkmax"]), "targets=" + case.get("spelling", "half-way"))
    getter = lambda o: None if o.get_dynamics() is None else (o.get_dynamics().times, o.get_dynamics().states)
    interpret(out, "tempo", case["ops"], make, getter, rt, rs, inj, end_of)
    return out


def enum_cases(tier):
    cases = []
    for L in (1, 2, 3):
        for seq in itertools.product(range(NMAX + 1), repeat=L):
            cases.append({"kind": "tempo", "targets": list(seq)})
            if L <= 2 or tier == "thorough":
                cases.append({"kind": "tempo", "targets": list(seq), "spelling": "on-grid"})
            if tier == "thorough":
                cases.append({"kind": "mean-field", "targets": list(seq)})
                cases.append({"kind": "pt-tebd", "targets": list(seq)})
    return cases


_FIXED_SYS = {"kind": "td", "H0": [[[0.5, 0.0], [0.25, -0.25]], [[0.25, 0.25], [-0.5, 0.0]]], "lind": [
    {"g0": 0.25, "g1": 0.125, "A0": [[[0, 0], [1, 0]], [[0, 0], [0, 0]]], "A1": None}],
    "H1": [[[0, 0], [0.5, 0]], [[0.5, 0], [0, 0]]], "H2": [[[0.25, 0], [0, 0]], [[0, 0], [-0.25, 0]]], "nu": 3.0, "integ": False}
_FIXED_RHO = [[[1.0, 0.0], [0.5, 0.25]], [[0.0, -0.5], [0.5, 0.0]]]


def _fixed_mf():
    return {"systems": [{"d": 2, "H0": _FIXED_SYS["H0"], "H1": _FIXED_SYS["H1"], "nu": 1.0,
                         "B": [[[0, 0], [1, 0]], [[0, 0], [0, 0]]], "g": 0.5, "lind": [], "rho0": _FIXED_RHO,
                         "Aobs": [[[0, 0], [0, 0]], [[1, 0], [0, 0]]]}],
            "eom": {"c0": [0.25, 0.0], "c1": [0.5, 0.25], "kappa": 0.1, "omega": 0.7, "c3": 0.25, "cs": [0.5], "c4": 0.5,
                    "nu": 2.5, "linear_only": False}, "a0": [0.5, 0.25]}


def run_enum(case):
    ops = [{"op": "compute", "target": t} for t in case["targets"]]
    if case["kind"] == "tempo":
        c = {"sys": _FIXED_SYS, "rho0": _FIXED_RHO, "dkmax": 2, "t0": 0.4, "ops": ops, "spelling": case.get("spelling", "half-way")}
        o = run_tempo(c)
    elif case["kind"] == "mean-field":
        c = {"mf": _fixed_mf(), "dkmax": 2, "t0": 0.4, "ops": ops}
        o = run_mf(c)
    else:
        c = {"chain": None, "order": 2, "ops": ops, "restart": None}
        o = run_tebd(c)
    o.label("enumerated", "kind=" + case["kind"])
    return o


# ---------------------------------------------------------------- MeanFieldTempo

@st.composite
def s_mf(draw, tier):
    return {"mf": draw(mfgen.mf_spec(tier, ns_max=2, dims=(2,), time_dependent=True)),
            "dkmax": draw(st.sampled_from([2, None])), "t0": draw(st.sampled_from([0.0, 0.4])),
            "ops": draw(s_ops(["field_eom", "hamiltonian"])), "spelling": draw(st.sampled_from(SPELLINGS))}


def run_mf(case):
    import oqupy
    out = Outcome()
    inj = Injector()
    mf = case["mf"]
    t0 = case["t0"]
    bath = oqupy.Bath(np.diag([0.5, -0.5]), oqupy.PowerLawSD(0.2, 1.0, 3.0, temperature=0.4))
    par = oqupy.TempoParameters(dt=0.1, epsrel=1e-8, dkmax=case["dkmax"], subdiv_limit=None)
    rhos = mfgen.initial_states(mf)
    a0 = complex(*mf["a0"])
    ns = len(rhos)
    make = lambda: oqupy.MeanFieldTempo(mfgen.build_mf_system(mf, wrap=inj.wrap), [bath] * ns, par, rhos, a0, start_time=t0)
    end_of = make_end_of(t0, case.get("spelling", "half-way"))
    out.label("targets=" + case.get("spelling", "half-way"))
    ref = oqupy.MeanFieldTempo(mfgen.build_mf_system(mf), [bath] * ns, par, rhos, a0, start_time=t0).compute(
        t0 + (NMAX + 0.5) * 0.1, progress_type="silent")
    pack = lambda d: np.concatenate([np.array(d.fields).reshape(-1, 1)] +
                                    [np.array(x.states).reshape(len(d.times), -1) for x in d.system_dynamics], axis=1)
    rt, rs = np.array(ref.times), pack(ref)
    _history_labels(out, case["ops"])
    out.label("dkmax=" + str(case["dkmax"]), f"systems={ns}")

    def getter(o):
        d = o.get_dynamics()
        if d is None or len(d.times) == 0:
            return None
        return d.times, pack(d)
    interpret(out, "mean-field", case["ops"], make, getter, rt, rs, inj, end_of)
    return out


# ---------------------------------------------------------------- PtTebd (split calls + restart)

@st.composite
def s_tebd(draw, tier):
    ch = draw(chaingen.chain_spec("two-site", dims=(2,), N=NMAX))
    ch2 = draw(chaingen.chain_spec("two-site", dims=(2,), N=NMAX, allow_pt=False))
    n = draw(st.integers(2, 3))
    chain = {"family": "generic", "dims": [2] * n, "sites": (ch["sites"] + ch2["sites"])[:n],
             "nn": (ch["nn"] + ch2["nn"])[:n - 1], "pts": (ch["pts"] + ch2["pts"])[:n], "rhos": (ch["rhos"] + ch2["rhos"])[:n]}
    controls = draw(st.lists(st.fixed_dictionaries({
        "site": st.integers(0, n - 1), "step": st.integers(0, NMAX), "post": st.booleans(),
        "op": ancgen.control_op_spec(2, invertible=True)}), max_size=3))
    return {"chain": chain, "order": draw(st.sampled_from([1, 2])), "ops": draw(s_ops([], max_len=6)),
            "restart": draw(st.one_of(st.none(), st.integers(0, NMAX - 1))), "controls": controls}


def run_tebd(case):
    import oqupy
    out = Outcome()
    spec = case["chain"]
    if spec is None:
        from checks.c10 import _six_site_spec
        s6 = _six_site_spec()
        spec = {k: (v[:3] if k != "nn" else v[:2]) if isinstance(v, list) else v for k, v in s6.items()}
    dt, t0 = 0.1, 0.5
    n = len(spec["dims"])
    chain = chaingen.build_chain(spec)
    envs = chaingen.build_envs(spec, NMAX, dt)
    pts = [None if e is None else e["pt"] for e in envs]
    rhos = chaingen.initial_states(spec)
    par = oqupy.PtTebdParameters(dt=dt, epsrel=1e-10, order=case["order"])
    sites = list(range(n)) + [(0, n - 1)]
    cc = None
    if case.get("controls"):
        cc = oqupy.ChainControl([2] * n)
        for c in case["controls"]:
            cc.add_single_site_control(ancgen.build_control_op(c["op"], 2), int(c["site"]) % n, int(c["step"]), post=c["post"])
        out.label("chain-controls")
    mk = lambda mps=None, st_=t0, ss=0: oqupy.PtTebd(mps or oqupy.AugmentedMPS(rhos), chain, pts, par, chain_control=cc,
                                                      start_time=st_, start_step=ss, dynamics_sites=sites)
    ref = mk().compute(NMAX, progress_type="silent")
    pack = lambda r: np.concatenate([np.array(r["dynamics"][s].states).reshape(len(r["time"]), -1) for s in sites] +
                                    [np.array(r["norm"]).reshape(-1, 1)], axis=1)
    rt, rs = np.array(ref["time"]), pack(ref)
    _history_labels(out, case["ops"])
    out.label(f"sites={n}", "pt-on-site" if any(p is not None for p in pts) else "no-pt")
    obj = mk()
    reached = -1
    for i, op in enumerate(case["ops"]):
        if op["op"] != "compute":
            if reached >= 0:
                which = op.get("which", 0)
                if which == 1:
                    obj.get_augmented_mps()
                elif which >= 2:
                    # the state getter between computes: equals the last recorded state and changes nothing
                    site = sites[(which + i) % len(sites)]
                    cur = np.array(obj.get_current_density_matrix(site))
                    last = np.array(obj.get_results()["dynamics"][site].states)[-1]
                    out.check_close("pt-tebd/get_current_density_matrix", cur, last, 1e-10, f"site {site} at step {reached}")
                    out.label("get_current_density_matrix")
                r = obj.get_results()
                _check_prefix(out, "pt-tebd/get", r["time"], pack(r), rt, rs, reached + 1)
            continue
        r = obj.compute(op["target"], progress_type="silent")
        reached = max(reached, op["target"])
        if not _check_prefix(out, "pt-tebd", r["time"], pack(r), rt, rs, reached + 1):
            return out
        if len(r["time"]) != reached + 1:
            out.fail("pt-tebd/length", f"op {i}: {len(r['time'])} points after targets up to {reached}")
            return out
    k = case.get("restart")
    if k is not None:
        out.label("restart", "restart-at-0" if k == 0 else "restart-later")
        # finding F-14e: initialize() applies the pre-measurement controls of the start step, which the exported state of
        # that step already contains - only such inputs carry the known-finding signature
        pre_here = any((not c["post"]) and c["step"] == k and c["op"]["kind"] != "identity" for c in case.get("controls") or [])
        post_here = any(c["post"] and c["step"] == k for c in case.get("controls") or [])
        if pre_here:
            out.label("pre-control-on-restart-step")
        if post_here:
            out.label("post-control-on-restart-step")
        out.nontrivial = True
        a = mk()
        a.compute(k, progress_type="silent")
        b = mk(a.get_augmented_mps(), t0 + k * dt, k)
        rb = b.compute(NMAX, progress_type="silent")
        out.check_close("pt-tebd/restart/times", np.array(rb["time"]), rt[k:], 1e-12)
        out.check_close("pt-tebd/restart/states" + (":pre-control-on-restart-step" if pre_here else ""), pack(rb), rs[k:],
                        STATE_TOL * max(1.0, float(np.abs(rs).max())), f"restart at step {k}")
    return out


# ---------------------------------------------------------------- PtTempo and GibbsTempo (idempotence)

@st.composite
def s_fixed_end(draw, tier):
    kind = draw(st.sampled_from(["pt-tempo", "gibbs"]))
    ops = draw(st.lists(st.sampled_from(["compute", "get", "get2"]), min_size=2, max_size=6))
    return {"kind": kind, "ops": ops, "N": draw(st.integers(2, 5)), "dkmax": draw(st.sampled_from([None, 1, 2])),
            "rot": draw(st.booleans()), "H": draw(gens.herm_spec(2, 1, 2)), "n": draw(st.integers(2, 8))}


def run_fixed_end(case):
    import oqupy
    from oqupy import operators
    from checks.c16 import probe_pt
    out = Outcome()
    ops = case["ops"]
    out.nontrivial = ops.count("compute") >= 2 or (ops.count("compute") >= 1 and len(ops) > 2)
    out.label("kind=" + case["kind"], f"computes={ops.count('compute')}")
    corr = oqupy.PowerLawSD(0.2, 1.0, 3.0, temperature=0.4)
    if case["kind"] == "pt-tempo":
        O = 0.5 * operators.sigma("z") + (0.3 * operators.sigma("x") if case["rot"] else 0)
        bath = oqupy.Bath(O, corr)
        par = oqupy.TempoParameters(dt=0.1, epsrel=1e-8, dkmax=case["dkmax"])
        N = case["N"]
        ref = oqupy.pt_tempo_compute(bath, 0.0, (N + 0.5) * 0.1, par, progress_type="silent")
        pref = probe_pt(ref)
        obj = oqupy.PtTempo(bath, 0.0, (N + 0.5) * 0.1, par)
        first = None
        for i, op in enumerate(ops):
            try:
                if op == "compute":
                    obj.compute(progress_type="silent")
                    continue
                pt = obj.get_process_tensor(progress_type="silent")
            except Exception as exc:
                out.fail(f"pt-tempo/{op}-raises:{type(exc).__name__}", f"op {i} of {ops}: {exc}")
                return out
            if len(pt) != N:
                out.fail("pt-tempo/length", f"op {i}: len {len(pt)} != {N}")
                return out
            p = probe_pt(pt)
            out.check_close("pt-tempo/vs-single-call", p, pref, (1000.0 * (N + 1) * 1e-8 + 1e-7) * max(1.0, float(np.abs(pref).max())), f"op {i} of {ops}")
            if first is not None:
                out.check_close("pt-tempo/changed-between-gets", p, first, 1e-12 * max(1.0, float(np.abs(first).max())))
            first = p
    else:
        H = gens.herm(case["H"])
        o = np.array([0.5, -0.25])
        mkg = lambda: oqupy.GibbsTempo(oqupy.System(H), oqupy.Bath(np.diag(o), corr), oqupy.GibbsParameters(case["n"], 1e-9))
        ref = mkg()
        ref.compute(progress_type="silent")
        rs = np.array(ref.get_state())
        rd = (np.array(ref.get_dynamics().times), np.array(ref.get_dynamics().states))
        g = mkg()
        done = False
        for i, op in enumerate(ops):
            try:
                if op == "compute":
                    g.compute(progress_type="silent")
                    done = True
                    continue
                if not done:
                    continue
                if op == "get":
                    out.check_close("gibbs/state", np.array(g.get_state()), rs, 1e-12, f"op {i} of {ops}")
                else:
                    d = g.get_dynamics()
                    out.check_close("gibbs/dynamics-times", np.array(d.times), rd[0], 1e-12, f"op {i} of {ops}")
                    out.check_close("gibbs/dynamics-states", np.array(d.states), rd[1], 1e-12, f"op {i} of {ops}")
            except Exception as exc:
                out.fail(f"gibbs/{op}-raises:{type(exc).__name__}", f"op {i} of {ops}: {exc}")
                return out
    return out


def subs(tier):
    return [
        Sub("enumerated-targets", run_enum, cases=enum_cases, exhaustive=True, budget={"quick": 1, "thorough": 1}),
        Sub("tempo", run_tempo, strategy=s_tempo, budget={"quick": 480, "thorough": 4000}),
        Sub("mean-field", run_mf, strategy=s_mf, budget={"quick": 400, "thorough": 3200}),
        Sub("pt-tebd", run_tebd, strategy=s_tebd, budget={"quick": 96, "thorough": 960}),
        Sub("fixed-end", run_fixed_end, strategy=s_fixed_end, budget={"quick": 160, "thorough": 1600}),
    ]
