"""C02 - TEMPO and PT-TEMPO + compute_dynamics produce the same dynamics."""
import numpy as np
from hypothesis import strategies as st

from vlib import gens, sysgen, tempogen
from vlib.runner import Outcome, Sub

ID = "C02"
LEVEL = "exploration"
RULE = ("Hypothesis-generated non-commuting problems: constant and explicitly time-dependent systems (H(t)=H0+cos(nu t)H1+t H2, "
        "gamma(t), A(t); sampled and integrated propagators), Lindblad terms, coupling operators diagonal / rotated / "
        "degenerate, spectral densities (all cut-offs, T>=0), dt, start_time != 0, dkmax>=1 or None, add_correlation_time, "
        "unique, N<=8 (16 thorough). Differential oracle: Tempo.compute vs pt_tempo_compute+compute_dynamics at every "
        "step, at two truncation tolerances (the bound c_T (N+1) eps + 1e-7 must hold at each); prefix: "
        "compute_dynamics(num_steps=n) on the length-N tensor vs a tensor built for exactly n steps. Non-trivial: "
        "||[H,O]|| > 0.1 and coupling > 0; distinct = distinct canonical JSON.")
TECHNIQUE = "Hypothesis property-based differential testing of two library routes at two truncation tolerances"
LEVEL_TEXT = ("Every generated case runs TEMPO and PT-TEMPO+compute_dynamics at two tolerances and compares all intermediate "
              "states; agreement must be within c_T (N+1) eps + 1e-7 at each tolerance (c_T=1000, calibrated with a 14x "
              "margin). Exploration at small sizes on conditioned inputs (D<=3.5).")
LEVEL_NOTE = "Differential oracle: a defect common to both routes is invisible here (C01 and C03 anchor both routes to independent references)."
ASSUMPTIONS = ["TEMPO inputs are conditioned (D <= 3.5) and size-coupled as in DESIGN section 4"]


@st.composite
def s_case(draw, tier):
    d = draw(st.integers(2, 4))
    p = draw(tempogen.params_spec(d, tier, n_min=2, eps=[1e-7], long_runs=True))
    return {"d": d, "bath": draw(tempogen.bath_spec(d, distinct_if_rotated=False)),
            "sys": draw(sysgen.sys_spec(d)), "rho0": draw(gens.dm_spec(d)), "par": p,
            "eps2": draw(st.sampled_from([1e-8, 1e-9])), "eps1": draw(st.sampled_from([1e-6, 1e-7])),
            "t0": draw(st.sampled_from([0.0, 0.0, 0.65, -2.1])),
            "unique": draw(st.booleans()), "n": draw(st.integers(2, p["N"]))}


def run_case(case):
    import oqupy
    out = Outcome()
    d, b = case["d"], case["bath"]
    p0 = case["par"]
    t0 = case["t0"]
    system = sysgen.build_system(case["sys"])
    rho0 = gens.build_dm(case["rho0"])
    sl = sysgen.subdiv_limit(case["sys"])
    first = True
    for eps in (case["eps1"], case["eps2"]):
        p = dict(p0, eps=eps)
        bath, sd, D, O, V = tempogen.build_bath(b, p, d, d_max=case.get("d_max", tempogen.D_MAX))
        if first:
            H0 = gens.herm(case["sys"]["H0"])
            out.nontrivial = bool(np.abs(H0 @ O - O @ H0).max() > 0.1 and D > 0)
            out.label(case["sys"]["kind"], "lindblad" if case["sys"]["lind"] else "no-lindblad",
                      "cutoff-active" if tempogen.cutoff_active(p) else "full-memory", "tau=" + str(p["tau"]),
                      "t0!=0" if t0 != 0 else "t0=0", "rotated" if b["V"]["kind"] != "identity" else "diagonal",
                      "unique" if case["unique"] else "not-unique",
                      "prefix n<N" if case["n"] < p["N"] else "prefix n=N", f"d={d}")
            if case["sys"]["kind"] == "td":
                out.label("integrated" if case["sys"].get("integ") else "sampled")
            first = False
        par = tempogen.build_params(p, subdiv_limit=sl)
        t_end = tempogen.end_time(p, t0)
        dyn = oqupy.Tempo(system, bath, par, rho0, t0, unique=case["unique"]).compute(t_end, progress_type="silent")
        pt = oqupy.pt_tempo_compute(bath, t0, t_end, par, unique=case["unique"], progress_type="silent")
        dyn2 = oqupy.compute_dynamics(system, rho0, process_tensor=pt, start_time=t0, subdiv_limit=sl,
                                      progress_type="silent")
        tol = tempogen.trunc_tol(p, 1000.0)
        tag = f"eps={'loose' if eps == case['eps1'] else 'tight'}"
        grow = float(np.abs(np.array(dyn.states)).max())
        if tempogen.cutoff_active(p) and grow > 3.0:
            # with a memory cut-off in force the truncated influence functional need not be contractive (DESIGN 10.9): the
            # exact cut-off dynamics can grow by orders of magnitude.  The truncation is relative (epsrel), so both routes
            # are compared relative to the magnitude the states reach; beyond 1e6 nothing is concluded.
            out.label("cutoff-dynamics-grows")
            if grow > 1e6:
                out.inconclusive = True
                return out
            tol = tol * grow
        out.check_close("tempo-vs-pt/" + tag, np.array(dyn2.states), np.array(dyn.states), tol, f"epsrel={eps}")
        out.check_close("times", np.array(dyn2.times), np.array(dyn.times), 1e-12 * (abs(t0) + 10))
        if len(pt) != p["N"]:
            out.fail("pt-length", f"len(pt)={len(pt)} N={p['N']}")
        # prefix
        n = case["n"]
        dyn_n = oqupy.compute_dynamics(system, rho0, process_tensor=pt, num_steps=n, start_time=t0, subdiv_limit=sl,
                                       progress_type="silent")
        pn = dict(p, N=n)
        pt_n = oqupy.pt_tempo_compute(bath, t0, tempogen.end_time(pn, t0), par, unique=case["unique"],
                                      progress_type="silent")
        dyn_n2 = oqupy.compute_dynamics(system, rho0, process_tensor=pt_n, start_time=t0, subdiv_limit=sl,
                                        progress_type="silent")
        out.check_close("prefix/" + tag, np.array(dyn_n.states), np.array(dyn_n2.states), tol, f"n={n}")
        out.check_close("prefix-vs-tempo/" + tag, np.array(dyn_n.states), np.array(dyn.states)[:n + 1], tol, f"n={n}")
    return out


def subs(tier):
    return [Sub("tempo-vs-pt", run_case, strategy=s_case, budget={"quick": 320, "thorough": 3000})]
