"""C11 - the Gibbs-state computation returns the exact reduced thermal state."""
import numpy as np
from hypothesis import strategies as st
from scipy.linalg import expm

from vlib import gens, tempogen
from vlib.refs import corr as R
from vlib.runner import Outcome, Sub

ID = "C11"
LEVEL = "exploration"
RULE = ("Hypothesis-generated Gibbs computations: (commuting) d=2..4, diagonal coupling operator and diagonal Hamiltonian incl. "
        "degenerate levels, power-law spectral densities with all cut-offs and zeta in {0.5..4}, T in [0.05,10] across the "
        "overflow guard, n_steps 2..40, epsrel <= 1e-8, coupling conditioned to beta*lambda*max(o^2) <= 8: oracle = Boltzmann "
        "weights of E_i - lambda o_i^2 with lambda = int J/w from an independent quadrature (1e-6 absolute), the same answer for "
        "two different n_steps. (weak) arbitrary Hermitian H, real and complex, at alpha=0 (must equal exp(-H/T)/Z to 1e-8) and "
        "alpha in {1e-2,1e-4,1e-6} (deviation <= 20 alpha w_c max(o^2)/T + 1e-6 and not increasing as alpha decreases). All: "
        "normalised, Hermitian, positive; a second compute()/get_state() returns the same state (or raises). Non-trivial: alpha>0 "
        "with o_i^2 not all equal, or H complex; distinct = distinct canonical JSON.")
TECHNIQUE = "Hypothesis property-based testing against a closed-form reference (Boltzmann weights with independent reorganisation energy) + metamorphic weak-coupling limit + idempotence history"
LEVEL_TEXT = ("Generated commuting models are compared with the exact reduced thermal state; generic (complex) Hamiltonians with "
              "the canonical state at zero coupling and with a monotone weak-coupling bound; every case repeats compute() and "
              "get_state() and demands an unchanged state.")
LEVEL_NOTE = "Trusts vlib/refs/corr.py for lambda; tolerance 1e-6 absolute (calibrated: <= 3.4e-8 on a repaired copy)."
ASSUMPTIONS = ["GibbsTempo is only defined for diagonal coupling operators (documented NotImplementedError otherwise)"]


def _phys(out, tag, st_, tol=1e-6):
    st_ = np.asarray(st_)
    if not np.all(np.isfinite(st_)):
        out.fail(tag + "/not-finite", "")
        return
    if abs(np.trace(st_) - 1) > tol:
        out.fail(tag + "/trace", f"{np.trace(st_)}")
    if np.abs(st_ - st_.conj().T).max() > tol:
        out.fail(tag + "/hermiticity", f"{np.abs(st_ - st_.conj().T).max():.3e}")
    lam = np.linalg.eigvalsh((st_ + st_.conj().T) / 2).min()
    if lam < -tol:
        out.fail(tag + "/positivity", f"lambda_min={lam:.3e}")


@st.composite
def s_comm(draw, tier):
    d = draw(st.integers(2, 4))
    E = [draw(gens.grid(-2, 2, 4)) for _ in range(d)]
    if draw(st.booleans()) and d >= 3:
        E[1] = E[0]
    return {"d": d, "o": draw(tempogen.eigenvalues(d)), "E": E,
            "sd": draw(gens.powerlaw_spec(temps=[0.0125, 0.02, 0.05, 0.1, 0.2, 0.5, 1.0, 3.0, 10.0], float_zeta=True)),
            # a common offset of all levels must not matter; with the low temperatures |E_0| / T reaches 480
            "shift": draw(st.sampled_from([0.0, 0.0, -4.0, 3.0])),
            "n": draw(st.integers(2, 40 if tier == "thorough" else 24)), "n2": draw(st.integers(2, 12)),
            "eps": draw(st.sampled_from([1e-8, 1e-10])), "again": draw(st.sampled_from(["compute", "get_state", "compute-twice"]))}


def _conditioned(sd, o):
    sd = dict(sd)
    lam1 = R.reorganisation(gens.scaled_spec(sd, 1.0 / sd["alpha"]))
    G = lam1 * max(np.asarray(o) ** 2) / sd["T"]
    if sd["alpha"] * G > 8.0:
        sd["alpha"] = 8.0 / G
    return sd, lam1 * sd["alpha"]


def _repeat(out, g, first, how, tag):
    """history: compute / get_state again must not change the state"""
    try:
        if how == "get_state":
            again = g.get_state()
        else:
            g.compute(progress_type="silent")
            if how == "compute-twice":
                g.compute(progress_type="silent")
            again = g.get_state()
    except Exception as exc:
        out.label("repeat-raises")
        if type(exc).__name__ in ("IndexError", "KeyError", "AttributeError", "TypeError"):
            out.fail(tag + "/repeat-crashes:" + type(exc).__name__, str(exc)[:200])
        return
    out.check_close(tag + "/repeat:" + how, again, first, 1e-12, "state after repeating the computation")


def run_comm(case):
    import oqupy
    out = Outcome()
    d = case["d"]
    o = np.array(case["o"], dtype=float)
    E = np.array(case["E"], dtype=float) + case.get("shift", 0.0)
    sd, lam = _conditioned(case["sd"], o)
    T = sd["T"]
    out.label("E0/T>177" if abs(E.min()) / T > 177.5 else "E0/T<=177")
    out.nontrivial = bool(sd["alpha"] > 0 and len(set(np.round(o ** 2, 9))) > 1)
    out.label(f"d={d}", "cutoff=" + sd["cutoff_type"], "guard-crossed" if gens.guard_crossed(sd) else "no-guard",
              "n<=3" if case["n"] <= 3 else "n>3", "degenerate-E" if len(set(E.tolist())) < d else "distinct-E", "again=" + case["again"])
    w = -(E - lam * o ** 2) / T
    w -= w.max()
    p = np.exp(w)
    p /= p.sum()
    bath = oqupy.Bath(np.diag(o), gens.build_corr(sd))
    system = oqupy.System(np.diag(E))
    tol = 1e-6 + (5e-4 * lam * max(o ** 2) / T if R.lowest_power(sd) < 1 else 0.0)
    g = oqupy.GibbsTempo(system, bath, oqupy.GibbsParameters(case["n"], case["eps"]))
    g.compute(progress_type="silent")
    st_ = np.array(g.get_state())
    out.check_close("commuting/closed-form", st_, np.diag(p), tol, f"n_steps={case['n']}")
    _phys(out, "commuting", st_)
    dyn = g.get_dynamics()
    if len(dyn.times) != case["n"] + 1 or abs(dyn.times[-1] - 1.0 / T) > 1e-9 / T:
        out.fail("commuting/imaginary-time-axis", f"len={len(dyn.times)} last={dyn.times[-1]} beta={1 / T}")
    _repeat(out, g, st_, case["again"], "commuting")
    st2 = oqupy.gibbs_tempo_compute(system, bath, oqupy.GibbsParameters(case["n2"], case["eps"]), progress_type="silent")
    out.check_close("commuting/independent-of-n_steps", np.array(st2), st_, 2 * tol, f"n_steps {case['n2']} vs {case['n']}")
    return out


@st.composite
def s_weak(draw, tier):
    d = draw(st.integers(2, 4))
    return {"d": d, "o": draw(tempogen.eigenvalues(d)), "H": draw(gens.herm_spec(d, 2, 4)),
            "real": draw(st.booleans()),
            "sd": draw(gens.powerlaw_spec(temps=[0.02, 0.05, 0.2, 0.5, 1.0, 3.0], zetas=[1.0, 2.0, 3.0], float_zeta=False)),
            "n": draw(st.integers(2, 24)), "eps": draw(st.sampled_from([1e-9, 1e-10])),
            "again": draw(st.sampled_from(["compute", "get_state"]))}


def run_weak(case):
    import oqupy
    out = Outcome()
    d = case["d"]
    o = np.array(case["o"], dtype=float)
    H = gens.herm(case["H"])
    if case["real"]:
        H = H.real.astype(complex)
    sd = dict(case["sd"])
    T, wc = sd["T"], sd["wc"]
    cplx = bool(np.abs(H.imag).max() > 0)
    out.nontrivial = cplx or len(set(np.round(o ** 2, 9))) > 1
    out.label(f"d={d}", "complex-H" if cplx else "real-H", "n<=3" if case["n"] <= 3 else "n>3")
    ev = np.linalg.eigvalsh(H)
    out.label("E0/T>177" if abs(ev[0]) / T > 177.5 else "E0/T<=177")
    exact = expm(-(H - ev[0] * np.eye(d)) / T)
    exact /= np.trace(exact)
    par = oqupy.GibbsParameters(case["n"], case["eps"])
    prev = None
    for alpha in (1e-2, 1e-4, 1e-6, 0.0):
        s = dict(sd, alpha=alpha)
        g = oqupy.GibbsTempo(oqupy.System(H), oqupy.Bath(np.diag(o), gens.build_corr(s)), par)
        g.compute(progress_type="silent")
        st_ = np.array(g.get_state())
        dev = float(np.abs(st_ - exact).max())
        tag = "zero-coupling" if alpha == 0 else "weak-coupling"
        bound = 1e-8 if alpha == 0 else 20.0 * alpha * wc * max(1.0, max(o ** 2)) / T * max(1.0, wc / T) + 1e-6
        out.metric(tag + "/tol", dev / bound)
        if dev > bound:
            out.fail(tag + (":complex-H" if cplx else ":real-H"), f"alpha={alpha}: |state - exp(-H/T)/Z| = {dev:.3e} > {bound:.3e}")
        if prev is not None and dev > prev + 1e-7:
            out.fail("weak-coupling-not-monotone", f"alpha={alpha}: deviation {dev:.3e} after {prev:.3e}")
        prev = dev
        _phys(out, tag, st_)
        if alpha in (1e-2, 0.0):
            _repeat(out, g, st_, case["again"], tag)
    return out


def subs(tier):
    return [
        Sub("commuting", run_comm, strategy=s_comm, budget={"quick": 640, "thorough": 5000}),
        Sub("weak-coupling", run_weak, strategy=s_weak, budget={"quick": 200, "thorough": 1500}),
    ]
