"""C15 - results are covariant under translation of the time origin."""
import numpy as np
from hypothesis import strategies as st

from vlib import ancgen, gens, mfgen, sysgen, tempogen
from vlib.runner import Outcome, Sub

ID = "C15"
LEVEL = "exploration"
RULE = ("Hypothesis-generated shifts tau (positive, negative, non-multiples of dt, large: 1e3+0.01, 1.5e4+0.037, -2.5e4-0.013) applied together with every "
        "explicit time dependence: H(t), gamma(t), A(t) of TimeDependentSystems (sampled and integrated propagators), field "
        "dependent Hamiltonians and field equations of motion, control times given as floats (and steps), correlation times "
        "given as floats and intervals. Metamorphic oracle: running (start, f(t)) and (start+tau, f(t-tau)) gives identical "
        "states / fields / correlation values (1e-9) and time axes shifted by exactly tau (few ulp), for Tempo, "
        "MeanFieldTempo, PtTempo+compute_dynamics, compute_dynamics_with_field and compute_correlations. Non-trivial: some "
        "callable depends on t and tau/dt is not an integer; distinct = distinct canonical JSON. (guessed-parameters) the "
        "parameters that tempo_compute(..., parameters=None) guesses and hands to Tempo are the same for (start, f(t)) and "
        "(start+tau, f(t-tau)).")
TECHNIQUE = "Hypothesis property-based metamorphic testing (time-origin shift)"
LEVEL_TEXT = ("Each generated problem is run twice, with the origin shifted and all callables/time arguments shifted accordingly; "
              "every state, field, correlation and time label is compared.")
LEVEL_NOTE = "End times are given as start+(N+1/2)dt so the grid-rounding question of C13 cannot interfere; tolerance 1e-9 (1e-7 for tau ~ 1e3 and integrated propagators) for tensor-contraction routes; Tempo and MeanFieldTempo re-truncate at every step and are compared within the truncation tolerance 100 (N+1) eps + 1e-7."
ASSUMPTIONS = ["control float times are >= 0.2 dt away from half-integer steps"]

TAUS = [1.0, -0.37, 2.345678, 0.5, -3.21, 1000.01, 15000.037, -25000.013]      # the last two: |t| * 1e-5 > dt for every dt


@st.composite
def s_case(draw, tier):
    d = draw(st.integers(2, 3))
    p = draw(tempogen.params_spec(d, tier, n_min=2, n_max=6, eps=[1e-7, 1e-8]))
    N = p["N"]
    ctl = []
    for _ in range(draw(st.integers(0, 4))):
        ctl.append({"step": draw(st.integers(0, N)), "float": draw(st.sampled_from([True, True, True, False])),
                    "delta": draw(st.sampled_from([-0.4, -0.3, -0.1, 0.0, 0.2, 0.4])), "post": draw(st.booleans()),
                    "op": draw(ancgen.control_op_spec(d))})
    return {"d": d, "par": p, "bath": draw(tempogen.bath_spec(d, custom_weight=0.0, temps=[0.0, 0.5], zetas=[1.0, 3.0])),
            "sys": draw(sysgen.sys_spec(d, force_td=True)), "rho0": draw(gens.dm_spec(d)),
            "t0": draw(st.sampled_from([0.0, 0.3])), "tau": draw(st.sampled_from(TAUS)),
            "tau_steps": draw(st.sampled_from([None, None, None, None, 3, -2])),
            "controls": ctl, "corr_a": draw(st.integers(0, N)), "corr_b1": draw(st.integers(0, N)),
            "corr_b2": draw(st.integers(0, N)), "A": draw(gens.cmatrix(d, d, 1, 2)), "B": draw(gens.cmatrix(d, d, 1, 2)),
            "mf": draw(mfgen.mf_spec(tier, ns_max=2, dims=(2,), time_dependent=True)), "do_mf": draw(st.booleans())}


def _run(case, start, shift):
    import oqupy
    d, p = case["d"], case["par"]
    dt, N = p["dt"], p["N"]
    res = {}
    bath, sd, D, O, V = tempogen.build_bath(case["bath"], p, d)
    sl = sysgen.subdiv_limit(case["sys"])
    par = tempogen.build_params(p, subdiv_limit=sl)
    system = sysgen.build_system(case["sys"], shift=shift)
    rho0 = gens.build_dm(case["rho0"])
    t_end = tempogen.end_time(p, start)
    dyn = oqupy.Tempo(system, bath, par, rho0, start).compute(t_end, progress_type="silent")
    res["tempo"] = (np.array(dyn.times), np.array(dyn.states))
    pt = oqupy.pt_tempo_compute(bath, start, t_end, par, progress_type="silent")
    ctl = oqupy.Control(d)
    for c in case["controls"]:
        S = ancgen.build_control_op(c["op"], d)
        if c["float"]:
            ctl.add_single(float(start + (c["step"] + c["delta"]) * dt), S, post=c["post"])
        else:
            ctl.add_single(int(c["step"]), S, post=c["post"])
    dyn2 = oqupy.compute_dynamics(system, rho0, process_tensor=pt, start_time=start, control=ctl, subdiv_limit=sl,
                                  progress_type="silent")
    res["compute_dynamics"] = (np.array(dyn2.times), np.array(dyn2.states))
    a, b1, b2 = case["corr_a"], case["corr_b1"], case["corr_b2"]
    t, c = oqupy.compute_correlations(system, pt, gens.to_c(case["A"]), gens.to_c(case["B"]),
                                      float(start + a * dt), (float(start + b1 * dt), float(start + b2 * dt)),
                                      initial_state=rho0, start_time=float(start), progress_type="silent")
    res["correlations"] = (np.concatenate([np.asarray(x, dtype=float) for x in t]), np.asarray(c))
    if case["do_mf"]:
        mf = case["mf"]
        mfs = mfgen.build_mf_system(mf, shift=shift)
        rhos = mfgen.initial_states(mf)
        a0 = complex(*mf["a0"])
        baths = [bath if s["d"] == d else oqupy.Bath(np.diag([0.5, -0.5]), gens.build_corr(sd)) for s in mf["systems"]]
        if d != 2:
            baths = [oqupy.Bath(np.diag([0.5, -0.5]), gens.build_corr(gens.scaled_spec(sd, 0.2))) for _ in mf["systems"]]
        dm = oqupy.MeanFieldTempo(mfs, baths, par, rhos, a0, start_time=start).compute(t_end, progress_type="silent")
        res["mean-field"] = (np.array(dm.times), np.concatenate([np.array(dm.fields).reshape(-1)] +
                                                                [np.array(x.states).reshape(-1) for x in dm.system_dynamics]))
        pts = [oqupy.pt_tempo_compute(b, start, t_end, par, progress_type="silent") for b in baths]
        dw = oqupy.compute_dynamics_with_field(mfs, a0, pts, initial_state_list=rhos, start_time=start, subdiv_limit=sl,
                                               progress_type="silent")
        res["with_field"] = (np.array(dw.times), np.concatenate([np.array(dw.fields).reshape(-1)] +
                                                                 [np.array(x.states).reshape(-1) for x in dw.system_dynamics]))
    return res


def run_case(case):
    out = Outcome()
    p = case["par"]
    dt = p["dt"]
    tau = case["tau"] if case["tau_steps"] is None else case["tau_steps"] * dt
    t0 = case["t0"]
    frac = abs(tau / dt - round(tau / dt)) > 1e-6
    out.nontrivial = frac
    out.label("tau-not-multiple-of-dt" if frac else "tau-multiple-of-dt", "tau-large" if abs(tau) > 100 else "tau-moderate",
              "integrated" if case["sys"].get("integ") else "sampled", "controls" if case["controls"] else "no-controls",
              "mean-field" if case["do_mf"] else "no-mean-field")
    a = _run(case, t0, 0.0)
    b = _run(case, t0 + tau, tau)
    big = abs(tau) > 100 or case["sys"].get("integ")
    tol = 1e-7 if big else 1e-9
    for k in a:
        ta, va = a[k]
        tb, vb = b[k]
        scale = max(1.0, float(np.nanmax(np.abs(va))) if va.size else 1.0)
        ulp = 8 * np.spacing(max(abs(t0) + abs(tau) + p["N"] * dt, 1.0))
        out.check_close(k + "/times", tb - tau, ta, ulp + 1e-15, "time axis shifted by tau")
        if np.isnan(va).any() or np.isnan(vb).any():
            if not np.array_equal(np.isnan(va), np.isnan(vb)):
                out.fail(k + "/nan-pattern", "NaN pattern differs under the shift")
                continue
            va, vb = np.nan_to_num(va), np.nan_to_num(vb)
        # TEMPO-type propagation truncates singular values relative to epsrel: rounding-level input differences can
        # move a singular value across the threshold, so these routes are only reproducible to the truncation tolerance
        tk = tol * scale
        if k in ("tempo", "mean-field"):
            tk = max(tk, tempogen.trunc_tol(p, 100.0, scale=scale))
        out.check_close(k + "/values", vb, va, tk, "values under the shift")
    return out


def _guessed_parameters(case, start, shift):
    """the parameters tempo_compute(..., parameters=None) hands to Tempo (the computation itself is not run: the Tempo class
    is replaced by a recorder for the duration of the call)"""
    import warnings
    import oqupy
    import oqupy.tempo as T
    d, p = case["d"], case["par"]
    bath = tempogen.build_bath(case["bath"], p, d)[0]
    system = sysgen.build_system(case["sys"], shift=shift)
    got = {}

    class Recorder:
        def __init__(self, system, bath, parameters, initial_state, start_time, *a, **k):
            got.update(dt=parameters.dt, dkmax=parameters.dkmax, epsrel=parameters.epsrel, start=start_time)

        def compute(self, end_time, progress_type=None):
            got["end"] = end_time
            return None

        def get_dynamics(self):
            return None
    saved = T.Tempo
    T.Tempo = Recorder
    try:
        with warnings.catch_warnings():
            warnings.simplefilter("ignore")
            T.tempo_compute(system, bath, gens.build_dm(case["rho0"]), start, start + 2.0, progress_type="silent")
    finally:
        T.Tempo = saved
    return got


def run_guess(case):
    """the convenience route with guessed parameters: the guess may depend on the interval length and on the system as a
    function of t - start only"""
    out = Outcome()
    tau = case["tau"]
    t0 = case["t0"]
    a = _guessed_parameters(case, t0, 0.0)
    b = _guessed_parameters(case, t0 + tau, tau)
    out.nontrivial = True
    out.label("tau-large" if abs(tau) > 100 else "tau-moderate")
    for key in ("dt", "epsrel"):
        if not abs(a[key] - b[key]) <= 1e-6 * abs(a[key]):
            out.fail("guessed-parameters/" + key, f"{key} = {a[key]!r} at start {t0}, {b[key]!r} at start {t0 + tau} (tau={tau})")
    if a["dkmax"] != b["dkmax"]:
        out.fail("guessed-parameters/dkmax", f"dkmax = {a['dkmax']} vs {b['dkmax']} (tau={tau})")
    return out


def subs(tier):
    return [Sub("shift", run_case, strategy=s_case, budget={"quick": 200, "thorough": 2000}),
            Sub("guessed-parameters", run_guess, strategy=s_case, budget={"quick": 96, "thorough": 800})]
