"""C13 - computations cover exactly the requested time grid and label states correctly."""
from fractions import Fraction

import numpy as np
from hypothesis import strategies as st

from vlib.runner import Outcome, Sub

ID = "C13"
LEVEL = "exploration"
RULE = ("(lattice) complete enumeration of dt in 12 values (decimal literals, 1/3, pi/10, 0.125, ...), start in {0,0.1,-0.5,1.3,100}, "
        "m=2..1000 and end_time written as the literal round(start+m dt,12), as start+m*dt, and off-grid (m+f)dt, f in "
        "{0.01,0.4,0.99}, against the length of the process tensor PtTempo(...) is constructed for (no propagation); one "
        "enumeration case = one (dt,start,form) with a block of 50 values of m, evaluations count lattice points. (public) "
        "Hypothesis-generated points, 50% drawn from the lattice points whose floating-point quotient falls below m, m<=40, "
        "run through Tempo, MeanFieldTempo, PtTempo, compute_dynamics, compute_dynamics_with_field, "
        "compute_gradient_and_dynamics (record_all True/False) and PtTebd (start_step 0, 3, 7; results['time'], single- and two-site "
        "dynamics, norm / bond-dimension lists aligned); Tempo and MeanFieldTempo also reach the final end time "
        "after 0-2 earlier compute() calls (end_time = start_time, less than one step, mid-way). (containers) generated add() histories in any "
        "order with repeated times on Dynamics / MeanFieldDynamics: axis sorted, every state/field stays with its time. Oracle R-times: n = whole steps that fit with an "
        "end on the grid up to rounding included (exact rational arithmetic + 1e-9 step tolerance), len = n+1, times[k] = "
        "start+k dt within 4 ulp, sorted, states aligned with a longer run, len(process tensor) = n, record_all=False "
        "labelled start+n dt. Non-trivial: quotient inexact in binary, or off-grid, or record_all=False.")
TECHNIQUE = "exhaustive enumeration of a (dt, start, m, spelling) lattice + Hypothesis property-based testing against a reference model of the time grid"
LEVEL_TEXT = ("The step-count decision is enumerated completely over a 3e5-point lattice of time specifications through the "
              "cheap PT-TEMPO constructor, and every public entry point is run on generated points (half of them the "
              "floating-point-hard ones) and compared with a reference model of the grid: lengths, labels, order, alignment.")
LEVEL_NOTE = ("Inputs are either on the grid up to a few ulp or at least 1% of dt away from it, so any reasonable rounding "
              "tolerance gives the same expected step count; ambiguous end times are not generated.")
ASSUMPTIONS = ["an end_time within 1e-9 steps of a grid point counts as that grid point (documented: 'up to floating-point rounding')"]

# two separate TEMPO runs are reproducible only to the truncation tolerance (epsrel 1e-8 here), not bit-wise
ALIGN_TOL = 1e-6

DTS = [0.1, 0.01, 0.05, 0.2, 0.3, 0.7, 0.001, 0.125, 1.0 / 3.0, np.pi / 10, 0.15, 0.6]
STARTS = [0.0, 0.1, -0.5, 1.3, 100.0]
FORMS = ["literal", "product", "off0.01", "off0.4", "off0.99"]


def end_time(start, dt, m, form):
    if form == "literal":
        return float(repr(round(start + m * dt, 12)))
    if form == "product":
        return start + m * dt
    f = float(form[3:])
    return start + (m + f) * dt


def ref_steps(start, dt, end):
    q = (Fraction(end) - Fraction(start)) / Fraction(dt)
    n = int(np.floor(float(q) + 1e-9)) if abs(q) < 10 ** 12 else int(q)
    # exact: floor(q + 1e-9)
    qe = q + Fraction(1, 10 ** 9)
    return int(qe.numerator // qe.denominator)


def fl_quotient_low(start, dt, m, form):
    e = end_time(start, dt, m, form)
    return int((e - start) / dt) < ref_steps(start, dt, e)


def _objs(dt):
    import oqupy
    corr = oqupy.PowerLawSD(alpha=0.05, zeta=1.0, cutoff=2.0, temperature=0.2)
    bath = oqupy.Bath(np.diag([0.5, -0.5]), corr)
    par = oqupy.TempoParameters(dt=dt, epsrel=1e-8, dkmax=1)
    return bath, par


def lattice_cases(tier):
    cases = []
    block = 50
    top = 1000
    for di, dt in enumerate(DTS):
        for start in STARTS:
            for form in FORMS:
                for lo in range(2, top + 1, block):
                    cases.append({"dt_index": di, "start": start, "form": form, "lo": lo, "hi": min(top, lo + block - 1)})
    return cases


def run_lattice(case):
    import oqupy
    out = Outcome()
    dt = DTS[case["dt_index"]]
    start, form = case["start"], case["form"]
    bath, par = _objs(dt)
    n_units = 0
    n_nt = 0
    bad = []
    for m in range(case["lo"], case["hi"] + 1):
        e = end_time(start, dt, m, form)
        want = ref_steps(start, dt, e)
        ptt = oqupy.PtTempo(bath, start, e, par)
        got = ptt._backend_instance.num_steps if hasattr(ptt, "_backend_instance") else None
        if got is None:
            raise RuntimeError("PtTempo exposes no step count without propagation")
        n_units += 1
        inexact = (Fraction(e) - Fraction(start)) / Fraction(dt) != m
        if inexact or form.startswith("off"):
            n_nt += 1
        if got != want:
            bad.append((m, e, got, want))
    out.units = n_units
    out.nontrivial = n_nt > 0
    out.nontrivial_units = n_nt
    out.label("form=" + form)
    if bad:
        m, e, got, want = bad[0]
        out.fail("pt-tempo-length:" + ("on-grid" if not form.startswith("off") else "off-grid"),
                 f"{len(bad)} of {n_units} points; first: dt={dt!r} start={start} end={e!r} m={m}: steps {got} != {want}")
    return out


_HARD = None


def hard_points():
    global _HARD
    if _HARD is None:
        _HARD = [(di, start, m, form) for di, dt in enumerate(DTS) for start in STARTS for m in range(2, 41)
                 for form in ("literal", "product") if fl_quotient_low(start, dt, m, form)]
    return _HARD


@st.composite
def s_public(draw, tier):
    if draw(st.booleans()):
        di, start, m, form = draw(st.sampled_from(hard_points()))
    else:
        di = draw(st.integers(0, len(DTS) - 1))
        start = draw(st.sampled_from(STARTS))
        m = draw(st.integers(2, 40))
        form = draw(st.sampled_from(FORMS))
    return {"dt_index": di, "start": start, "m": m, "form": form,
            "api": draw(st.sampled_from(["tempo", "mean-field", "pt+dynamics", "gradient", "pt-tebd"])),
            # compute() calls made BEFORE the one with the final end time (continuable methods): end_time == start_time,
            # less than one step, somewhere in the middle
            "approach": draw(st.lists(st.sampled_from(["start", "sub-dt", "mid"]), max_size=2))}


def _check_axis(out, tag, times, start, dt, n):
    times = np.asarray(times, dtype=float)
    if len(times) != n + 1:
        out.fail(tag + "/length", f"len(times)={len(times)} expected {n + 1} (start={start}, dt={dt!r})")
        return False
    want = start + dt * np.arange(n + 1)
    ulp = np.spacing(np.maximum(np.abs(want), abs(start) + n * dt))
    if np.any(np.abs(times - want) > 4 * ulp):
        k = int(np.argmax(np.abs(times - want)))
        out.fail(tag + "/labels", f"times[{k}]={times[k]!r} expected {want[k]!r}")
        return False
    if np.any(np.diff(times) <= 0):
        out.fail(tag + "/sorted", "time axis not strictly increasing")
        return False
    return True


def run_public(case):
    import oqupy
    from oqupy import operators
    out = Outcome()
    dt = DTS[case["dt_index"]]
    start, m, form, api = case["start"], case["m"], case["form"], case["api"]
    e = end_time(start, dt, m, form)
    n = ref_steps(start, dt, e)
    inexact = (Fraction(e) - Fraction(start)) / Fraction(dt) != m
    hard = int((e - start) / dt) < n
    out.nontrivial = inexact or form.startswith("off") or api in ("pt+dynamics", "gradient")
    out.label("api=" + api, "form=" + form, "fl-quotient-low" if hard else "fl-quotient-ok")
    bath, par = _objs(dt)
    sx, sz = operators.sigma("x"), operators.sigma("z")
    system = oqupy.System(0.5 * sx + 0.2 * sz)
    rho0 = operators.spin_dm("up")
    e_long = start + (n + 2.5) * dt
    approach = [{"start": start, "sub-dt": start + 0.4 * dt, "mid": start + (n // 2 + 0.5) * dt}[a] for a in case.get("approach", [])]
    approach = [a for a in approach if a <= e]
    if approach and api in ("tempo", "mean-field"):
        out.label("approached-in-%d-calls" % (len(approach) + 1), *["approach=" + a for a in case["approach"]])
    if api == "tempo":
        tmp = oqupy.Tempo(system, bath, par, rho0, start)
        for a in approach:
            tmp.compute(a, progress_type="silent")
        d = tmp.compute(e, progress_type="silent")
        if _check_axis(out, "tempo", d.times, start, dt, n):
            full = oqupy.Tempo(system, bath, par, rho0, start).compute(e_long, progress_type="silent")
            out.check_close("tempo/aligned", np.array(d.states), np.array(full.states)[:n + 1], ALIGN_TOL * (n + 1))
    elif api == "mean-field":
        sp, sm = operators.sigma("+"), operators.sigma("-")
        sysf = oqupy.TimeDependentSystemWithField(lambda t, a: 0.5 * sz + 0.3 * (a * sp + np.conj(a) * sm))
        mfs = oqupy.MeanFieldSystem([sysf], lambda t, st_, a: -0.2j * a - 0.1 * a - 0.3j * np.trace(st_[0] @ sm) + 0.1 * t)
        mk = lambda: oqupy.MeanFieldTempo(mfs, [bath], par, [rho0], 0.3 + 0.1j, start_time=start)
        tmp = mk()
        for a in approach:
            tmp.compute(a, progress_type="silent")
        d = tmp.compute(e, progress_type="silent")
        if len(d.fields) != len(d.times) or len(d.system_dynamics[0].times) != len(d.times):
            out.fail("mean-field/aligned-lengths", f"{len(d.times)} times, {len(d.fields)} fields, {len(d.system_dynamics[0].times)} system times")
        if _check_axis(out, "mean-field", d.times, start, dt, n):
            full = mk().compute(e_long, progress_type="silent")
            out.check_close("mean-field/aligned-fields", np.array(d.fields), np.array(full.fields)[:n + 1], ALIGN_TOL * (n + 1))
            out.check_close("mean-field/aligned-states", np.array(d.system_dynamics[0].states),
                            np.array(full.system_dynamics[0].states)[:n + 1], ALIGN_TOL * (n + 1))
    elif api == "pt+dynamics":
        pt = oqupy.pt_tempo_compute(bath, start, e, par, progress_type="silent")
        if len(pt) != n:
            out.fail("pt-tempo/length", f"len(process_tensor)={len(pt)} expected {n} (dt={dt!r}, start={start}, end={e!r})")
            return out
        d = oqupy.compute_dynamics(system, rho0, process_tensor=pt, start_time=start, progress_type="silent")
        _check_axis(out, "compute_dynamics", d.times, start, dt, n)
        if n >= 3:
            dp = oqupy.compute_dynamics(system, rho0, process_tensor=pt, start_time=start, num_steps=n - 1,
                                        progress_type="silent")
            if _check_axis(out, "compute_dynamics/prefix", dp.times, start, dt, n - 1):
                out.check_close("compute_dynamics/prefix/states", np.array(dp.states), np.array(d.states)[:n], 1e-12)
            dp1 = oqupy.compute_dynamics(system, rho0, process_tensor=pt, start_time=start, num_steps=n - 1,
                                         record_all=False, progress_type="silent")
            wantp = start + (n - 1) * dt
            if len(dp1.times) != 1 or abs(dp1.times[0] - wantp) > 4 * np.spacing(max(abs(wantp), 1.0)):
                out.fail("compute_dynamics/prefix/record_all=False/label", f"times {list(dp1.times)!r} expected [{wantp!r}]")
        d1 = oqupy.compute_dynamics(system, rho0, process_tensor=pt, start_time=start, record_all=False,
                                    progress_type="silent")
        out.label("record_all=False")
        if len(d1.times) != 1 or len(d1.states) != 1:
            out.fail("compute_dynamics/record_all=False/length", f"{len(d1.times)} times")
        else:
            want = start + n * dt
            if abs(d1.times[0] - want) > 4 * np.spacing(max(abs(want), 1.0)):
                out.fail("compute_dynamics/record_all=False/label", f"time {d1.times[0]!r} expected {want!r}")
            out.check_close("compute_dynamics/record_all=False/state", np.array(d1.states)[0], np.array(d.states)[-1], 1e-12)
        sp, sm = operators.sigma("+"), operators.sigma("-")
        sysf = oqupy.TimeDependentSystemWithField(lambda t, a: 0.5 * sz + 0.3 * (a * sp + np.conj(a) * sm))
        mfs = oqupy.MeanFieldSystem([sysf], lambda t, st_, a: -0.2j * a - 0.1 * a - 0.3j * np.trace(st_[0] @ sm) + 0.1 * t)
        df = oqupy.compute_dynamics_with_field(mfs, 0.3 + 0.1j, [pt], initial_state_list=[rho0], start_time=start,
                                               progress_type="silent")
        _check_axis(out, "compute_dynamics_with_field", df.times, start, dt, n)
        # zero whole steps: the axis is the start time alone, in every routine that takes num_steps
        for ra in (True, False):
            d0 = oqupy.compute_dynamics(system, rho0, process_tensor=pt, start_time=start, num_steps=0, record_all=ra,
                                        progress_type="silent")
            _check_axis(out, "compute_dynamics/zero-steps", d0.times, start, dt, 0)
            f0 = oqupy.compute_dynamics_with_field(mfs, 0.3 + 0.1j, [pt], initial_state_list=[rho0], start_time=start,
                                                   num_steps=0, record_all=ra, progress_type="silent")
            _check_axis(out, "compute_dynamics_with_field/zero-steps", f0.times, start, dt, 0)
            if len(f0.fields) != 1 or abs(complex(f0.fields[0]) - (0.3 + 0.1j)) > 1e-15:
                out.fail("compute_dynamics_with_field/zero-steps/field", f"fields {list(f0.fields)!r}")
        dc = oqupy.compute_dynamics(system, rho0, dt=dt, num_steps=min(n, 5), start_time=start, progress_type="silent")
        _check_axis(out, "compute_dynamics/no-process-tensor", dc.times, start, dt, min(n, 5))
        dc1 = oqupy.compute_dynamics(system, rho0, dt=dt, num_steps=min(n, 5), start_time=start, record_all=False,
                                     progress_type="silent")
        if len(dc1.times) != 1 or abs(dc1.times[0] - (start + min(n, 5) * dt)) > 4 * np.spacing(max(abs(start + min(n, 5) * dt), 1.0)):
            out.fail("compute_dynamics/no-process-tensor/record_all=False/label", f"times {list(dc1.times)!r}")
        df1 = oqupy.compute_dynamics_with_field(mfs, 0.3 + 0.1j, [pt], initial_state_list=[rho0], start_time=start,
                                                record_all=False, progress_type="silent")
        want = start + n * dt
        if len(df1.times) != 1 or abs(df1.times[0] - want) > 4 * np.spacing(max(abs(want), 1.0)):
            out.fail("compute_dynamics_with_field/record_all=False/label", f"times {list(df1.times)!r} expected [{want!r}]")
        else:
            out.check_close("compute_dynamics_with_field/record_all=False/field", np.array(df1.fields)[-1:],
                            np.array(df.fields)[-1:], 1e-12)
    elif api == "gradient":
        from oqupy.gradient import compute_gradient_and_dynamics
        pt = oqupy.pt_tempo_compute(bath, start, e, par, progress_type="silent")
        if len(pt) != n:
            out.fail("pt-tempo/length", f"len(process_tensor)={len(pt)} expected {n} (dt={dt!r}, start={start}, end={e!r})")
            return out
        psys = oqupy.ParameterizedSystem(lambda u: 0.5 * u * sx + 0.2 * sz)
        params = np.linspace(0.2, 1.0, 2 * n).reshape(2 * n, 1)
        for ra in (True, False):
            _, d = compute_gradient_and_dynamics(system=psys, initial_state=rho0, target_derivative=rho0.T.copy(),
                                                 process_tensors=[pt], parameters=params, start_time=start,
                                                 record_all=ra, progress_type="silent")
            if ra:
                _check_axis(out, "gradient", d.times, start, dt, n)
                last = np.array(d.states)[-1]
            else:
                out.label("record_all=False")
                want = start + n * dt
                if len(d.times) != 1 or abs(d.times[0] - want) > 4 * np.spacing(max(abs(want), 1.0)):
                    out.fail("gradient/record_all=False/label", f"times {list(d.times)!r} expected [{want!r}]")
                else:
                    out.check_close("gradient/record_all=False/state", np.array(d.states)[0], last, 1e-12)
    else:
        chain = oqupy.SystemChain([2, 2])
        chain.add_site_hamiltonian(0, 0.5 * sx)
        chain.add_nn_hamiltonian(0, 0.3 * sz, sz)
        steps = min(n, 6)
        # start_step != 0: the computation is labelled as steps s0 .. s0+steps of a longer one; start_time is the time of
        # step s0, so the axis is start_time + k dt, k = 0..steps, whatever s0 is
        s0 = [0, 0, 3, 7][(m + case["dt_index"]) % 4]
        out.label("start_step=0" if s0 == 0 else "start_step>0")
        teb = oqupy.PtTebd(oqupy.AugmentedMPS([rho0, rho0]), chain, [None, None],
                           oqupy.PtTebdParameters(dt=dt, epsrel=1e-8, order=2), start_time=float(start), start_step=s0,
                           dynamics_sites=[0, (0, 1)])
        r = teb.compute(s0 + steps, progress_type="silent")
        _check_axis(out, "pt-tebd", r["time"], start, dt, steps)
        _check_axis(out, "pt-tebd/dynamics", r["dynamics"][0].times, start, dt, steps)
        _check_axis(out, "pt-tebd/dynamics-pair", r["dynamics"][(0, 1)].times, start, dt, steps)
        for key in ("norm", "bond_dimensions"):
            if len(r[key]) != len(r["time"]):
                out.fail("pt-tebd/aligned-lengths", f"{len(r[key])} entries of results[{key!r}] for {len(r['time'])} times")
        r2 = teb.get_results()
        _check_axis(out, "pt-tebd/get_results", r2["time"], start, dt, steps)
    return out


# ---------------------------------------------------------------- the Dynamics containers keep times sorted and aligned

@st.composite
def s_container(draw, tier):
    n = draw(st.integers(1, 8))
    times = [draw(st.sampled_from([0.0, 0.1, 0.2, 0.30000000000000004, 0.3, 0.5, -0.4, 1.0, 2.5])) for _ in range(n)]
    return {"times": times, "via_constructor": draw(st.integers(0, n)), "mean_field": draw(st.booleans()),
            "read_after": draw(st.lists(st.integers(0, n - 1), max_size=3))}


def run_container(case):
    """histories of add() in any order (also repeated times): the time axis stays sorted and every state stays with
    the time it was added for (as multisets per time), in Dynamics and MeanFieldDynamics"""
    import oqupy
    from oqupy.dynamics import Dynamics, MeanFieldDynamics
    out = Outcome()
    times = case["times"]
    n = len(times)
    states = [np.array([[k + 1.0, 0.5j * k], [-0.5j * k, 1.0]], dtype=complex) for k in range(n)]
    fields = [complex(k, -k) for k in range(n)]
    out.nontrivial = times != sorted(times) or len(set(times)) < n
    out.label("out-of-order" if times != sorted(times) else "ascending", "repeated-times" if len(set(times)) < n else "distinct-times",
              "MeanFieldDynamics" if case["mean_field"] else "Dynamics")
    if case["mean_field"]:
        d = MeanFieldDynamics()
        for j, (t, s_, f) in enumerate(zip(times, states, fields)):
            d.add(t, [s_, 2 * s_], f)
            if j in case.get("read_after", []):      # the user looks at the object between additions
                if not (len(d.times) == len(d.fields) == len(d.system_dynamics[0].times) == len(d.system_dynamics[0].states) == j + 1):
                    out.fail("container/intermediate-read-length", f"after {j + 1} additions")
        got_t = list(d.times)
        got = [(t, complex(f), x[0, 0], y[0, 0]) for t, f, x, y in zip(d.times, d.fields, d.system_dynamics[0].states, d.system_dynamics[1].states)]
        want = [(t, f, s_[0, 0], 2 * s_[0, 0]) for t, s_, f in zip(times, states, fields)]
        key = lambda r: (r[0], r[1].real, r[1].imag, r[2].real, r[3].real)
        got_sorted_within = sorted(got, key=key)
        want = sorted(want, key=key)
        for sub_d in d.system_dynamics:
            if list(sub_d.times) != sorted(times):
                out.fail("container/mean-field/sub-dynamics-times", f"{list(sub_d.times)}")
    else:
        k0 = case["via_constructor"]
        d = Dynamics(times=list(times[:k0]), states=states[:k0]) if k0 else Dynamics()
        for j, (t, s_) in enumerate(zip(times[k0:], states[k0:])):
            d.add(t, s_)
            if (k0 + j) in case.get("read_after", []):   # the user looks at the object between additions
                if not (len(d.times) == len(d.states) == len(d) == k0 + j + 1):
                    out.fail("container/intermediate-read-length", f"after {k0 + j + 1} additions")
        got_t = list(d.times)
        got = [(t, x[0, 0]) for t, x in zip(d.times, d.states)]
        want = sorted(((t, s_[0, 0]) for t, s_ in zip(times, states)), key=lambda r: (r[0], r[1].real))
        got_sorted_within = sorted(got, key=lambda r: (r[0], r[1].real))
        if len(d.times) != len(d.states) or len(d) != n:
            out.fail("container/times-states-length", f"{len(d.times)} times, {len(d.states)} states, len {len(d)} after {n} additions")
        tt, ex = d.expectations(np.array([[1.0, 0], [0, 0]]))
        if list(tt) != got_t or not np.allclose(ex, [x[0, 0] for x in d.states]):
            out.fail("container/expectations-misaligned", "expectations() not aligned with times/states")
    if got_t != sorted(times):
        out.fail("container/not-sorted", f"times {got_t} after adding {times}")
    if len(got_sorted_within) != len(want) or any(abs(complex(a[1]) - complex(b[1])) > 0 or a[0] != b[0] for a, b in zip(got_sorted_within, want)):
        out.fail("container/state-detached-from-time", f"(time, state) pairs changed: added {times}")
    return out


def subs(tier):
    return [
        Sub("containers", run_container, strategy=s_container, budget={"quick": 600, "thorough": 6000}),
        Sub("lattice", run_lattice, cases=lattice_cases, exhaustive=True, budget={"quick": 6000, "thorough": 6000}),
        Sub("public", run_public, strategy=s_public, budget={"quick": 480, "thorough": 4800}),
    ]
