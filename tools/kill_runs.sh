#!/bin/bash
# kill all check runs and their pool workers
for p in $(pgrep -f "multiprocessing-fork") $(pgrep -f "/verif/run.py") $(pgrep -f "\./run.py"); do kill -9 $p 2>/dev/null; done
true
