#!/bin/bash
# run every registered quick check at several seeds on the current tree; report anything that is not quiet
# usage: tools/stability.sh "2 3 4 5 6" [ids...]
SEEDS=${1:-"2 3 4 5 6"}; shift
IDS=${@:-$(python3 -c "import json;print(' '.join(c['property_id'] for c in json.load(open('MANIFEST.json'))['checks']))")}
OUT=${VERIF_OUT_DIR:-$(mktemp -d /tmp/stab.XXXXXX)}
export VERIF_OUT_DIR=$OUT
for s in $SEEDS; do for id in $IDS; do
  t0=$(date +%s)
  VERIF_SEED=$s ./run.py $id --tier quick > $OUT/$id.$s.log 2>&1; rc=$?
  echo "seed=$s $id rc=$rc $(( $(date +%s)-t0 ))s $(grep -c '^VIOLATION' $OUT/$id.$s.log) violations $(grep -c KNOWN-FINDING $OUT/$id.$s.log) known"
  if [ $rc -ne 0 ]; then grep -E "^VIOLATION|HARNESS" $OUT/$id.$s.log | head -5; fi
done; done
