#!/usr/bin/env python3
"""mutants whose patterns need precise multi-line handling (companion of make_mutants.sh)"""
import difflib, os, re
HERE = os.path.dirname(os.path.dirname(os.path.abspath(__file__)))


def mutant(name, rel, fn):
    src = open(os.path.join("/repo", rel)).read()
    dst = fn(src)
    assert dst != src, name
    diff = "".join(difflib.unified_diff(src.splitlines(True), dst.splitlines(True), "a/" + rel, "b/" + rel))
    open(os.path.join(HERE, "mutants", name + ".diff"), "w").write(diff)
    print("wrote", name, len(diff.splitlines()))


def sub_once(pat, rep, count=1, flags=re.S):
    def f(s):
        new, n = re.subn(pat, rep, s, count=count, flags=flags)
        assert n == count, (pat, n)
        return new
    return f


# C02: swap first/second half propagators in compute_dynamics (first occurrence only)
def swap_props(s):
    i = s.index("            first_half_prop, second_half_prop = propagators(step)")
    j = s.index("first_half_prop)", i)
    k = s.index("second_half_prop)", j)
    return s[:j] + "second_half_prop)" + s[j + len("first_half_prop)"):k] + "first_half_prop)" + s[k + len("second_half_prop)"):]
mutant("c02-halfprops-swapped", "oqupy/system_dynamics.py", swap_props)
# C04: dissipator -0.5 -> -1 in the shared _liouvillian helper (second occurrence)
def diss(s):
    i = s.rindex("- 0.5 * opr.acommutator(np.dot(op_dagger, op)))")
    return s[:i] + "- 1.0 * opr.acommutator(np.dot(op_dagger, op)))" + s[i + len("- 0.5 * opr.acommutator(np.dot(op_dagger, op)))"):]
mutant("c04-dissipator-half", "oqupy/system.py", diss)
# C04: PT-TEMPO normalisation scale dropped in the end phase
mutant("c04-pt-scale-dropped", "oqupy/backends/pt_tempo_backend.py",
       sub_once(r"self\._sum_north_scaled = self\._sum_north \* scale", "self._sum_north_scaled = self._sum_north * (scale if self._num_steps != 5 else 1.0)"))
# C06: representative of a west degeneracy class taken from the end (Tempo only)
mutant("c06-west-representative", "oqupy/tempo.py",
       sub_once(r"self\._bath\.west_degeneracy_map == i\)\[0\]\[0\]", "self._bath.west_degeneracy_map == i)[0][-1]"))
mutant("c06-north-representative-pt", "oqupy/pt_tempo.py",
       sub_once(r"self\._bath\.north_degeneracy_map == i\)\[0\]\[0\]", "self._bath.north_degeneracy_map == i)[0][-1]"))
# C18: post-measurement control applied before recording (compute_dynamics)
def post_before(s):
    a = s.index("            # -- extract current state -- update field --\n            if record_all:\n                caps = _get_caps(process_tensors, step)")
    b = s.index("            # -- apply post measurement control --", a)
    c = s.index("            # -- propagate one time step --", b)
    return s[:a] + s[b:c] + s[a:b] + s[c:]
mutant("c18-post-before-record", "oqupy/system_dynamics.py", post_before)
# C08: one half propagator not transposed in the back pass
mutant("c08-backprop-first-half-not-transposed", "oqupy/gradient.py",
       sub_once(r"current_node, current_edges, first_half_prop\.T\)", "current_node, current_edges, first_half_prop)"))
# C08: pre/post control order in the back pass
mutant("c08-chainrule-halfstep-swap", "oqupy/gradient.py",
       sub_once(r"total_derivs\[2\*i\]\[j\] = combine_derivs\(", "total_derivs[2*i if num_parameters < 3 else 2*i+1][j] = combine_derivs("))
# C03: transform_out skipped for rank-3 (delta) tensors
mutant("c03-rank3-skips-transform-out", "oqupy/process_tensor.py",
       sub_once(r"        if self\._transform_out is not None:\n            tensor = np\.dot\(tensor, self\._transform_out\)\n        return tensor\n\n    def get_cap_tensor\(self, step: int\) -> ndarray:\n        \"\"\"\n        Get the cap tensor \(vector\) to terminate the PT-MPO at time step `step`\.\n        \"\"\"\n        length = len\(self\._cap_tensors\)",
                "        if self._transform_out is not None \\\n                and len(self._mpo_tensors[step].shape) == 4:\n            tensor = np.dot(tensor, self._transform_out)\n        return tensor\n\n    def get_cap_tensor(self, step: int) -> ndarray:\n        \"\"\"\n        Get the cap tensor (vector) to terminate the PT-MPO at time step `step`.\n        \"\"\"\n        length = len(self._cap_tensors)"))
# C08: second half-step derivative always taken with respect to the first parameter
mutant("c08-second-half-wrong-parameter", "oqupy/gradient.py",
       sub_once(r"second_half_prop_derivs\[j\]\.T\)", "second_half_prop_derivs[0].T)"))
# C12: thermal guard threshold
mutant("c12-thermal-guard", "oqupy/bath_correlations.py",
       sub_once(r"if np\.exp\(-w / self\.temperature\) > np\.finfo\(float\)\.eps:\n(\s+)inte = self\._spectral_density\(w\) / w \*\* 2",
                r"if np.exp(-w / self.temperature) > 1.0e-3:\n\1inte = self._spectral_density(w) / w ** 2"))
# C03: current_edges[i] -> [0] when applying several MPOs
mutant("c03-bond-edge-index", "oqupy/system_dynamics.py",
       sub_once(r"        current_edges\[i\] \^ pt_mpo_node\[0\]\n        current_edges\[-1\] \^ pt_mpo_node\[2\]\n        current_node = current_node @ pt_mpo_node\n        current_edges\[i\] = new_bond_edge",
                "        current_edges[i] ^ pt_mpo_node[0]\n        current_edges[-1] ^ pt_mpo_node[2]\n        current_node = current_node @ pt_mpo_node\n        current_edges[i if len(pt_mpos) < 3 else 0] = new_bond_edge"))
# C16: shape stored reversed for rank-3 tensors on export
mutant("c16-transformed-flag-dropped", "oqupy/process_tensor.py",
       sub_once(r"mpo = pt_file\.get_mpo_tensor\(step, transformed=False\)", "mpo = pt_file.get_mpo_tensor(step)"))
# C17: flag reset although the file was only opened for reading -> n/a ; instead: reset flag before the last write
mutant("c17-flag-reset-early", "oqupy/process_tensor.py",
       sub_once(r"        for step, cap in enumerate\(self\._cap_tensors\):\n            pt_file\.set_cap_tensor\(step, cap\)\n        pt_file\.close\(\)",
                "        pt_file._f.attrs[\"writing\"] = False\n        for step, cap in enumerate(self._cap_tensors):\n            pt_file.set_cap_tensor(step, cap)\n        pt_file.close()"))
# C19: exit() without cancel when an exception is in flight in the context manager
mutant("c19-exit-skips-cancel-on-error", "oqupy/util.py",
       sub_once(r'    def __exit__\(self, exception_type, exception_value, traceback\):\n        """Contextmanager exit\. """\n        self\.exit\(\)',
                '    def __exit__(self, exception_type, exception_value, traceback):\n        """Contextmanager exit. """\n        if exception_type is None:\n            self.exit()'))
# C14: PtTempo.compute twice
mutant("c14-pttempo-dowhile", "oqupy/pt_tempo.py",
       sub_once(r"            while self\._backend_instance\.step \\\n                    < self\._backend_instance\.num_steps:\n                self\._backend_instance\.compute_step\(\)\n",
                "            while self._backend_instance.compute_step():\n"))
# C11: transpose read-out dropped again
mutant("c11-readout-transpose", "oqupy/tempo.py",
       sub_once(r"self\._dynamics\.add\(self\._time\(step\+1\), state\.T\)", "self._dynamics.add(self._time(step+1), state)"))
# C09: compute_dynamics_with_field evaluates the field at the end of the step again
mutant("c09-cdwf-time-shift", "oqupy/system_dynamics.py",
       sub_once(r"field = compute_field\(t-dt, dt, previous_state_list, field,", "field = compute_field(t, dt, previous_state_list, field,"))
# C13: PtTebd time labels
mutant("c13-tebd-time-offset", "oqupy/pt_tebd.py",
       sub_once(r"return self\._start_time \+ self\._parameters\.dt\*\(step - self\._start_step\)",
                "return self._start_time + self._parameters.dt*(step - self._start_step) * (1 + 1e-9)"))
# C15: start_time dropped in the second half-step sampling time
mutant("c15-second-half-time", "oqupy/system.py",
       sub_once(r"second_step = expm\(self\.liouvillian\(t\+dt\*3\.0/4\.0\)\*dt/2\.0\)", "second_step = expm(self.liouvillian(step*dt+dt*3.0/4.0)*dt/2.0)"))
# C20: state leaking between calls: module level cache of propagators keyed by dt only
mutant("c20-propagator-cache", "oqupy/system.py",
       sub_once(r"    def get_propagators\(self, dt, start_time, subdiv_limit, epsrel\):\n        \"\"\"Prepare propagator functions for the system\. \"\"\"\n        first_step = expm\(self\.liouvillian\(\)\*dt/2\.0\)",
                "    _PROP_CACHE = {}\n\n    def get_propagators(self, dt, start_time, subdiv_limit, epsrel):\n        \"\"\"Prepare propagator functions for the system. \"\"\"\n        key = (dt, self.dimension, round(float(np.abs(self._hamiltonian).sum()), 3))\n        if key not in System._PROP_CACHE:\n            System._PROP_CACHE[key] = expm(self.liouvillian()*dt/2.0)\n        first_step = System._PROP_CACHE[key]"))
