#!/usr/bin/env python3
"""mkmutant.py <name> <file relative to repo> <old> <new> [--count N]: write mutants/<name>.diff replacing the
(unique, or N-th) occurrence of <old> by <new> in /repo/<file> (the repository itself is not touched)."""
import difflib, os, sys
HERE = os.path.dirname(os.path.dirname(os.path.abspath(__file__)))
name, rel, old, new = sys.argv[1:5]
nth = int(sys.argv[6]) if len(sys.argv) > 6 and sys.argv[5] == "--count" else None
src = open(os.path.join("/repo", rel)).read()
old = old.encode().decode("unicode_escape"); new = new.encode().decode("unicode_escape")
cnt = src.count(old)
if cnt == 0 or (cnt > 1 and nth is None):
    sys.exit(f"pattern occurs {cnt} times")
if nth is None:
    dst = src.replace(old, new)
else:
    parts = src.split(old)
    dst = old.join(parts[:nth + 1]) + new + old.join(parts[nth + 1:])
diff = "".join(difflib.unified_diff(src.splitlines(True), dst.splitlines(True), "a/" + rel, "b/" + rel))
open(os.path.join(HERE, "mutants", name + ".diff"), "w").write(diff)
print("wrote", name, len(diff.splitlines()), "lines")
