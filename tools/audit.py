#!/usr/bin/env python3
"""Sensitivity audit: apply one seeded change (a diff against /repo) to a
scratch copy of the repository outside /repo and /verif, run a property's
check against it (VERIF_REPO), report detected / missed, remove the copy.

usage: tools/audit.py <diff> <ID> [<ID> ...] [--tier quick] [--scale 1.0] [--keep]
"""
import argparse
import os
import shutil
import subprocess
import sys
import tempfile
import time

HERE = os.path.dirname(os.path.dirname(os.path.abspath(__file__)))


def main():
    ap = argparse.ArgumentParser()
    ap.add_argument("diff")
    ap.add_argument("ids", nargs="+")
    ap.add_argument("--tier", default="quick")
    ap.add_argument("--scale", default=None)
    ap.add_argument("--repo", default="/repo")
    ap.add_argument("--sub", nargs="*", help="run only these sub-checks")
    ap.add_argument("--tests", action="store_true", help="also run the pinned repository test-suite on the mutated copy")
    a = ap.parse_args()
    scratch = tempfile.mkdtemp(prefix="audit_", dir="/tmp")
    try:
        repo = os.path.join(scratch, "repo")
        subprocess.run(["rsync", "-a", "--exclude", ".git", "--exclude", "__pycache__", "--exclude", "docs",
                        "--exclude", "tutorials", "--exclude", "examples", a.repo + "/", repo + "/"], check=True)
        r = subprocess.run(["patch", "-p1", "-s", "-d", repo, "-i", os.path.abspath(a.diff)],
                           capture_output=True, text=True)
        if r.returncode != 0:
            print("PATCH-FAILED", a.diff, r.stdout, r.stderr)
            return 3
        rc_all = 0
        if a.tests:
            t0 = time.time()
            shutil.copytree(os.path.join(a.repo, "tests"), os.path.join(repo, "tests"), dirs_exist_ok=True)
            p = subprocess.run([os.path.join(HERE, "tools", "repo_tests.sh"), repo], capture_output=True, text=True)
            line = [l for l in p.stdout.splitlines() if l.startswith("files:")]
            print(f"TESTS {'PASS' if p.returncode == 0 else 'FAIL'} {os.path.basename(a.diff)} {time.time()-t0:.0f}s  " + (line[0] if line else p.stdout[-200:]))
            for d in [x for x in os.listdir('/tmp') if x.startswith('repotests.')]:
                pass
        for cid in a.ids:
            env = dict(os.environ, VERIF_REPO=repo, VERIF_OUT_DIR=os.path.join(scratch, "out"))
            if a.scale:
                env["VERIF_BUDGET_SCALE"] = a.scale
            t0 = time.time()
            p = subprocess.run([os.path.join(HERE, "run.py"), cid, "--tier", a.tier] + (["--sub"] + a.sub if a.sub else []), env=env,
                               capture_output=True, text=True, cwd=HERE)
            viol = [l for l in p.stdout.splitlines() if l.startswith("VIOLATION")]
            status = {0: "MISSED", 1: "DETECTED", 2: "HARNESS-ERROR"}.get(p.returncode, f"rc={p.returncode}")
            print(f"{status} {os.path.basename(a.diff)} {cid}{'[' + ','.join(a.sub) + ']' if a.sub else ''} {time.time()-t0:.0f}s  " +
                  (viol[0].split('#', 1)[-1].strip()[:160] if viol else ""))
            if p.returncode == 2:
                print(p.stdout[-1500:], p.stderr[-1500:])
            if p.returncode != 1:
                rc_all = 1
        return rc_all
    finally:
        shutil.rmtree(scratch, ignore_errors=True)


if __name__ == "__main__":
    sys.exit(main())
