#!/bin/bash
# Run the pinned repository test-suite, one pytest process per test file, in parallel.
# usage: tools/repo_tests.sh [repo_dir] ; prints a summary, exit 0 iff all files pass
REPO=${1:-/repo}
OUT=$(mktemp -d /tmp/repotests.XXXXXX)
cd "$REPO" || exit 2
ls tests/coverage/*_test.py tests/physics/*_test.py | \
  xargs -P 16 -I{} sh -c 'f={}; n=$(echo $f | tr / _); OQUPY_VERIF= /venv/bin/python -m pytest -q -p no:cacheprovider --timeout=1800 $f > '"$OUT"'/$n.log 2>&1; echo "$? $f" >> '"$OUT"'/status'
sort -k2 "$OUT/status" > "$OUT/status.sorted"
fail=$(grep -Ev "^(0|5) " "$OUT/status.sorted" | wc -l)
pass=$(cat "$OUT"/*.log | grep -Eo '^[0-9]+ passed' | awk '{s+=$1} END {print s}')
echo "files: $(wc -l < $OUT/status.sorted) failing_files: $fail tests_passed: $pass logs: $OUT"
grep -Ev "^(0|5) " "$OUT/status.sorted"
[ "$fail" = 0 ]
