#!/bin/bash
# run every registered quick check in /verif against /repo (refreshes evidence/<id>.json), then regenerate MANIFEST.json
cd "$(dirname "$0")/.."
rc_all=0
for id in $(python3 -c "import json;print(' '.join(c['property_id'] for c in json.load(open('MANIFEST.json'))['checks']))"); do
  t0=$(date +%s)
  ./run.py $id --tier quick > /tmp/refresh_$id.log 2>&1; rc=$?
  echo "$id rc=$rc $(( $(date +%s)-t0 ))s $(tail -1 /tmp/refresh_$id.log | cut -c1-160)"
  [ $rc -ne 0 ] && rc_all=1 && grep -E "^VIOLATION|HARNESS" /tmp/refresh_$id.log | head -3
done
python3-vt tools/gen_manifest.py | tail -1
exit $rc_all
