#!/usr/bin/env python3
"""Confirm an independently written breaking change and run the checks against it.

usage: tools/seeded_eval.py <name> <property-id> <dir with patch.diff + demo.py [+ notes.md]> [--checks C01 C02 ...]
                            [--no-tests] [--tier quick]

Steps (all on a scratch copy of /repo outside /repo and /verif, removed afterwards):
  1. demo.py on the unchanged copy must exit 0
  2. patch.diff must apply; demo.py on the changed copy must exit non-zero
  3. the pinned repository test-suite must still pass on the changed copy
  4. the registered quick checks (default: the check of the property) are run with VERIF_REPO=<changed copy>
The change is kept as /verif/seeded/<name>/ {patch.diff, demo.py, notes.md, meta.json} only if 1-3 hold.
"""
import argparse
import json
import os
import shutil
import subprocess
import sys
import tempfile
import time

HERE = os.path.dirname(os.path.dirname(os.path.abspath(__file__)))


def sh(cmd, **kw):
    return subprocess.run(cmd, capture_output=True, text=True, **kw)


def main():
    ap = argparse.ArgumentParser()
    ap.add_argument("name")
    ap.add_argument("prop")
    ap.add_argument("src")
    ap.add_argument("--checks", nargs="*")
    ap.add_argument("--no-tests", action="store_true")
    ap.add_argument("--tier", default="quick")
    a = ap.parse_args()
    checks = a.checks or [a.prop]
    scratch = tempfile.mkdtemp(prefix="seeded_", dir="/tmp")
    meta = {"name": a.name, "breaks_property": a.prop, "ran": []}
    try:
        repo = os.path.join(scratch, "repo")
        sh(["rsync", "-a", "--exclude", ".git", "--exclude", "__pycache__", "--exclude", "docs", "--exclude", "tutorials",
            "--exclude", "examples", "/repo/", repo + "/"], check=True)
        demo = os.path.join(a.src, "demo.py")
        env = dict(os.environ, PYTHONPATH=repo, OMP_NUM_THREADS="2", PYTHONHASHSEED="0")
        t0 = time.time()
        r0 = sh(["/venv/bin/python", demo], cwd=repo, env=env, timeout=1800)
        meta["demo_unchanged_exit"] = r0.returncode
        meta["ran"].append(f"demo.py on unchanged copy: exit {r0.returncode} ({time.time()-t0:.0f}s)")
        p = sh(["patch", "-p1", "-s", "-d", repo, "-i", os.path.abspath(os.path.join(a.src, "patch.diff"))])
        if p.returncode != 0:
            print("PATCH-FAILED", p.stdout, p.stderr)
            return 3
        t0 = time.time()
        r1 = sh(["/venv/bin/python", demo], cwd=repo, env=env, timeout=1800)
        meta["demo_changed_exit"] = r1.returncode
        meta["demo_changed_output"] = (r1.stdout + r1.stderr)[-600:]
        meta["ran"].append(f"demo.py on changed copy: exit {r1.returncode} ({time.time()-t0:.0f}s)")
        ok = r0.returncode == 0 and r1.returncode != 0
        if not a.no_tests:
            t0 = time.time()
            t = sh([os.path.join(HERE, "tools", "repo_tests.sh"), repo])
            line = [l for l in t.stdout.splitlines() if l.startswith("files:")]
            meta["tests_pass"] = t.returncode == 0
            meta["ran"].append(f"pinned test-suite on changed copy: {'pass' if t.returncode == 0 else 'FAIL'} "
                               f"({line[0] if line else t.stdout[-200:]}) ({time.time()-t0:.0f}s)")
            ok = ok and t.returncode == 0
            for d in os.listdir("/tmp"):
                if d.startswith("repotests."):
                    shutil.rmtree(os.path.join("/tmp", d), ignore_errors=True)
        meta["confirmed"] = bool(ok)
        meta["checks"] = {}
        for cid in checks:
            t0 = time.time()
            e2 = dict(os.environ, VERIF_REPO=repo, VERIF_OUT_DIR=os.path.join(scratch, "out"))
            c = sh([os.path.join(HERE, "run.py"), cid, "--tier", a.tier], env=e2, cwd=HERE)
            viol = [l for l in c.stdout.splitlines() if l.startswith("VIOLATION")]
            status = {0: "missed", 1: "detected", 2: "harness-error"}.get(c.returncode, f"rc={c.returncode}")
            meta["checks"][cid] = {"status": status, "seconds": round(time.time() - t0),
                                   "first_violation": viol[0].split("#", 1)[-1].strip()[:300] if viol else None,
                                   "n_signatures": len(viol)}
            print(f"{status.upper()} {a.name} {cid} {time.time()-t0:.0f}s " + (viol[0].split('#', 1)[-1].strip()[:200] if viol else ""))
            if c.returncode == 2:
                print(c.stdout[-1200:], c.stderr[-1200:])
        print("CONFIRMED" if ok else "NOT-CONFIRMED", json.dumps({k: meta[k] for k in meta if k.startswith("demo") and k.endswith("exit") or k == "tests_pass"}))
        if ok:
            dst = os.path.join(HERE, "seeded", a.name)
            os.makedirs(dst, exist_ok=True)
            for f in ("patch.diff", "demo.py", "notes.md"):
                if os.path.exists(os.path.join(a.src, f)) and os.path.abspath(a.src) != os.path.abspath(dst):
                    shutil.copy(os.path.join(a.src, f), os.path.join(dst, f))
            notes = os.path.join(a.src, "notes.md")
            meta["needs_to_manifest"] = open(notes).read()[:1500] if os.path.exists(notes) else ""
            json.dump(meta, open(os.path.join(dst, "meta.json"), "w"), indent=1)
        return 0
    finally:
        shutil.rmtree(scratch, ignore_errors=True)


if __name__ == "__main__":
    sys.exit(main())
