#!/bin/bash
# sensitivity audit over all mutants: each mutant is run against the check of the property named in its file name
# usage: tools/audit_all.sh [--tests] [pattern]   -> appends to mutants/AUDIT.log
cd "$(dirname "$0")/.."
T=""; if [ "$1" = "--tests" ]; then T="--tests"; shift; fi
PAT=${1:-"*"}
for f in mutants/$PAT.diff; do
  id=$(basename $f | cut -c1-3 | tr c C)
  tools/audit.py $f $id $T 2>&1 | grep -E "^(DETECTED|MISSED|HARNESS|PATCH|TESTS)" | tee -a mutants/AUDIT.log
done
