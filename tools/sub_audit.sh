#!/bin/sh
# Sensitivity of individual sub-checks: each line = a stored change and ONE sub-check that must catch it on its own.
cd "$(dirname "$0")/.."
run() { tools/audit.py "$1" "$2" --sub "$3"; }
run mutants/c01-imeta-sign.diff C01 modes
run mutants/c02-endphase-offbyone.diff C03 pt-tempo-sum
run seeded/s2-C01/patch.diff C05 mean-field
run mutants/c07-anti-no-transpose.diff C07 dt-anti
run mutants/c07-parse-ignores-start.diff C07 self-consistency
run mutants/c07-bath-commutator-sign.diff C07 bath
run mutants/c10-completion-order.diff C10 all-orders
run mutants/c10-completion-order.diff C10 generated-orders
run mutants/c11-shift-sign.diff C11 weak-coupling
run mutants/c12-gaussian-cutoff.diff C12 customsd
run mutants/c12-square-factor.diff C12 modes
run mutants/c13-floor-to-round.diff C13 public
run mutants/c14-tempo-reinit.diff C14 tempo
run mutants/c14-step-before-props.diff C14 mean-field
run mutants/c14-pttempo-dowhile.diff C14 fixed-end
run mutants/c17-removeable-always.diff C17 modes
run mutants/c19-no-finally.diff C19 real-threads
run mutants/c04-dissipator-half.diff C04 tempo
run seeded/s2-C20/patch.diff C20 fresh-process
