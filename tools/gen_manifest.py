#!/usr/bin/env python3
"""Regenerate /verif/MANIFEST.json from the table below and validate it
(python3-vt has jsonschema).  Only checks whose module exists are listed;
every other property goes to not_applicable with the reason given here."""
import json
import os
import sys

HERE = os.path.dirname(os.path.dirname(os.path.abspath(__file__)))

sys.path.insert(0, HERE)


def check_meta(pid):
    """metadata is declared by the check module itself"""
    import importlib
    mod = importlib.import_module(f"checks.{pid.lower()}")
    return (mod.LEVEL, mod.TECHNIQUE, mod.LEVEL_TEXT, mod.LEVEL_NOTE, f"DESIGN.md section 5 {pid}")


NOT_YET = "check not implemented yet in this round of the build (planned in DESIGN.md section 5); not claimed"


def main():
    props = [json.loads(l) for l in open(os.path.join(HERE, "properties.jsonl"))]
    checks = []
    na = []
    for p in props:
        pid = p["id"]
        mod = os.path.join(HERE, "checks", pid.lower() + ".py")
        if os.path.exists(mod):
            cat, tech, text, note, ref = check_meta(pid)
            checks.append({
                "property_id": pid,
                "quick_cmd": f"/venv/bin/python run.py {pid} --tier quick",
                "thorough_cmd": f"/venv/bin/python run.py {pid} --tier thorough",
                "evidence_file": f"/verif/evidence/{pid}.json",
                "replay_cmd_template": f"/venv/bin/python run.py {pid} --replay {{path}}",
                "engine": "vlib-runner",
                "level_claimed": {"category": cat, "text": text, "design_ref": ref},
                "level_note": note,
                "technique": tech,
            })
        else:
            na.append({"property_id": pid, "reason": NOT_YET})
    man = {
        "version": 1,
        "setup_cmd": "/venv/bin/python -c 'import hypothesis' 2>/dev/null || /venv/bin/pip install -q --no-index "
                     "--find-links /opt/veriftools/wheels hypothesis",
        "hooks": {
            "guard": "OQUPY_VERIF",
            "enable": "no source hooks exist: OQuPy is pure Python, imported from /repo's working tree (run.py puts "
                      "$VERIF_REPO, default /repo, first on sys.path); all observation points are reached by wrapping "
                      "module-level names from the harness process",
            "baseline_off_cmd": "cd /repo && OQUPY_VERIF= /venv/bin/python -m pytest -ra -q -p no:cacheprovider "
                                "--timeout=900 --continue-on-collection-errors",
            "source_commits": [],
            "add_only": True,
        },
        "engines": [{
            "name": "vlib-runner", "path": "/verif/vlib/runner.py",
            "serves_properties": [c["property_id"] for c in checks],
            "kind_free_text": "sharded Hypothesis / enumeration runner with collect-then-shrink, replay files, "
                              "known-findings matching and evidence writer",
        }],
        "checks": checks,
        "not_applicable": na,
        "notes": "All checks: `run.py <ID> --tier quick|thorough`; exit 0 held / 1 VIOLATION / 2 machinery error. "
                 "VERIF_SEED selects the Hypothesis seeds. Genuine defects repaired in /repo are listed in "
                 "known_findings.txt as 'fixed:' lines; unrepaired ones as 'known:' lines.",
    }
    out = os.path.join(HERE, "MANIFEST.json")
    with open(out, "w") as f:
        json.dump(man, f, indent=1)
    try:
        import jsonschema
        jsonschema.validate(man, json.load(open("/root/.vp/MANIFEST.schema.json")))
        print("MANIFEST.json valid;", len(checks), "checks,", len(na), "not_applicable")
    except ImportError:
        print("jsonschema not importable here; run with python3-vt to validate")


if __name__ == "__main__":
    main()
