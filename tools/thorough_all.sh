#!/bin/bash
# run every thorough tier once (evidence/replays to a scratch dir unless VERIF_OUT_DIR is preset)
cd "$(dirname "$0")/.."
export VERIF_OUT_DIR=${VERIF_OUT_DIR:-$(mktemp -d /tmp/thorough.XXXXXX)}
IDS=${@:-$(python3 -c "import json;print(' '.join(c['property_id'] for c in json.load(open('MANIFEST.json'))['checks']))")}
for id in $IDS; do
  t0=$(date +%s)
  ./run.py $id --tier thorough > $VERIF_OUT_DIR/$id.log 2>&1; rc=$?
  echo "$id rc=$rc $(( $(date +%s)-t0 ))s $(tail -1 $VERIF_OUT_DIR/$id.log | cut -c1-200)"
  if [ $rc -ne 0 ]; then grep -E "^VIOLATION|HARNESS" $VERIF_OUT_DIR/$id.log | head -5; fi
done
