#!/bin/bash
# re-confirm every kept seeded change and re-run the checks of its property against it (refreshes meta.json)
cd "$(dirname "$0")/.."
for d in seeded/*/; do
  n=$(basename $d); id=$(python3 -c "import json;print(json.load(open('$d/meta.json'))['breaks_property'])")
  extra=$(python3 -c "import json;print(' '.join(k for k in json.load(open('$d/meta.json'))['checks']))")
  tools/seeded_eval.py $n $id $d --checks $extra 2>&1 | grep -E "^(DETECTED|MISSED|HARNESS|CONFIRMED|NOT-CONFIRMED)"
done
